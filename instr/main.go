// instr: source-to-source rewriter that produces a `go build -overlay` file
// instrumenting rulio from /repo's CURRENT working tree.  Nothing is written
// under /repo; the rewritten copies live in -out.
//
// Levels
//
//	1  clock (import "time" -> verifrt/vtime) + deterministic/selectable map
//	   iteration order (range over map -> vmem.Keys)
//	2  level 1 + cooperative scheduling: import "sync" -> verifrt/vsync,
//	   `go f(x)` -> sched.Go, channel send/recv/close/select/range -> vchan
//
// Plus, at every level: the virtual packages verifrt/* (files of /verif/rt),
// the injected files of /verif/inject/<pkg>/, and a go.mod copy with `go 1.21`
// (rulio says go 1.14, which rejects the generic helpers).
package main

import (
	"bytes"
	"encoding/json"
	"flag"
	"fmt"
	"go/ast"
	"go/build"
	"go/importer"
	"go/parser"
	"go/printer"
	"go/token"
	"go/types"
	"io"
	"os"
	"os/exec"
	"path/filepath"
	"regexp"
	"sort"
	"strings"
)

const rtPrefix = "github.com/Comcast/rulio/verifrt/"

var (
	repo    = flag.String("repo", "/repo", "rulio working tree")
	verif   = flag.String("verif", "/verif", "verification tree (rt/, inject/)")
	out     = flag.String("out", "", "scratch output directory")
	level   = flag.Int("level", 1, "instrumentation level (1|2|3)")
	pkgsF   = flag.String("pkgs", "core,cron,sys,service,crolt,storage/bolt", "rulio packages to instrument")
	sheens  = flag.Bool("sheens", true, "also make sheens/match map order deterministic")
	verbose = flag.Bool("v", false, "verbose")
)

type report struct {
	Level    int               `json:"level"`
	Packages map[string]*pkgRp `json:"packages"`
	Degraded []string          `json:"degraded"`
}
type pkgRp struct {
	Files        int      `json:"files"`
	MapRanges    int      `json:"map_ranges"`
	GoStmts      int      `json:"go_stmts"`
	ChanOps      int      `json:"chan_ops"`
	MapAccess    int      `json:"map_accesses"`
	FieldAccess  int      `json:"field_accesses"`
	ForeignCalls int      `json:"foreign_object_calls"`
	Selects      int      `json:"selects"`
	TimeSwaps    int      `json:"time_import_swaps"`
	SyncSwaps    int      `json:"sync_import_swaps"`
	TypeErrors   []string `json:"type_errors,omitempty"`
}

func main() {
	flag.Parse()
	if *out == "" {
		fatal("need -out")
	}
	must(os.MkdirAll(*out, 0o755))
	overlay := map[string]string{}
	rep := &report{Level: *level, Packages: map[string]*pkgRp{}}

	// virtual runtime packages
	rtDirs, _ := os.ReadDir(filepath.Join(*verif, "rt"))
	for _, d := range rtDirs {
		if !d.IsDir() {
			continue
		}
		files, _ := filepath.Glob(filepath.Join(*verif, "rt", d.Name(), "*.go"))
		for _, f := range files {
			overlay[filepath.Join(*repo, "verifrt", d.Name(), filepath.Base(f))] = f
		}
	}
	// injected files
	filepath.Walk(filepath.Join(*verif, "inject"), func(p string, info os.FileInfo, err error) error {
		if err != nil || info.IsDir() || !strings.HasSuffix(p, ".go") {
			return nil
		}
		rel, _ := filepath.Rel(filepath.Join(*verif, "inject"), p)
		overlay[filepath.Join(*repo, rel)] = p
		return nil
	})
	// go.mod with go 1.21
	gm, err := os.ReadFile(filepath.Join(*repo, "go.mod"))
	must(err)
	gm2 := regexp.MustCompile(`(?m)^go [0-9.]+$`).ReplaceAll(gm, []byte("go 1.21"))
	gmPath := filepath.Join(*out, "go.mod")
	must(os.WriteFile(gmPath, gm2, 0o644))
	overlay[filepath.Join(*repo, "go.mod")] = gmPath

	for _, rel := range strings.Split(*pkgsF, ",") {
		rel = strings.TrimSpace(rel)
		if rel == "" {
			continue
		}
		dir := filepath.Join(*repo, rel)
		if _, err := os.Stat(dir); err != nil {
			continue
		}
		r := instrumentDir(dir, filepath.Join(*out, rel), overlay, true)
		rep.Packages[rel] = r
	}
	if *sheens {
		cmd := exec.Command("go", "list", "-f", "{{.Dir}}", "github.com/Comcast/sheens/match")
		cmd.Dir = *repo
		cmd.Env = append(os.Environ(), "GOFLAGS=-mod=mod", "GOPROXY=off", "GOSUMDB=off", "GOTOOLCHAIN=local")
		b, err := cmd.Output()
		if err == nil {
			dir := strings.TrimSpace(string(b))
			saveLevel := *level
			*level = 1
			r := instrumentDir(dir, filepath.Join(*out, "_sheens_match"), overlay, false)
			*level = saveLevel
			rep.Packages["sheens/match"] = r
		} else {
			rep.Degraded = append(rep.Degraded, "sheens/match: go list failed: "+err.Error())
		}
	}

	ov := map[string]interface{}{"Replace": overlay}
	b, _ := json.MarshalIndent(ov, "", " ")
	must(os.WriteFile(filepath.Join(*out, "overlay.json"), b, 0o644))
	rb, _ := json.MarshalIndent(rep, "", " ")
	must(os.WriteFile(filepath.Join(*out, "instr-report.json"), rb, 0o644))
	if *verbose {
		os.Stdout.Write(rb)
		fmt.Println()
	}
}

var exportMap map[string]string

// newImporter: gc export data located through one `go list -export -deps`
// (fast, build-cache backed); falls back to the source importer.
func newImporter(fset *token.FileSet) types.Importer {
	if exportMap == nil {
		exportMap = map[string]string{}
		args := []string{"list", "-export", "-deps", "-f", "{{.ImportPath}}\t{{.Export}}"}
		for _, rel := range strings.Split(*pkgsF, ",") {
			if rel = strings.TrimSpace(rel); rel != "" {
				if _, err := os.Stat(filepath.Join(*repo, rel)); err == nil {
					args = append(args, "./"+rel)
				}
			}
		}
		cmd := exec.Command("go", args...)
		cmd.Dir = *repo
		cmd.Env = append(os.Environ(), "GOFLAGS=-mod=mod", "GOPROXY=off", "GOSUMDB=off", "GOTOOLCHAIN=local")
		b, err := cmd.Output()
		if err == nil {
			for _, ln := range strings.Split(string(b), "\n") {
				f := strings.Split(ln, "\t")
				if len(f) == 2 && f[1] != "" {
					exportMap[f[0]] = f[1]
				}
			}
		}
	}
	if len(exportMap) == 0 {
		return importer.ForCompiler(fset, "source", nil)
	}
	return importer.ForCompiler(fset, "gc", func(path string) (io.ReadCloser, error) {
		if p, ok := exportMap[path]; ok {
			return os.Open(p)
		}
		return nil, fmt.Errorf("no export data for %s", path)
	})
}

func fatal(f string, a ...interface{}) {
	fmt.Fprintf(os.Stderr, "instr: "+f+"\n", a...)
	os.Exit(3)
}
func must(err error) {
	if err != nil {
		fatal("%v", err)
	}
}

type fileCtx struct {
	fset      *token.FileSet
	file      *ast.File
	info      *types.Info
	pkg       *types.Package
	generics  bool
	rp        *pkgRp
	needVmem  bool
	needSched bool
	needVchan bool
	tmp       int
	timeName  string // local name of the "time" import ("" if absent)
	rel       string // package directory relative to the repo
}

func instrumentDir(dir, outDir string, overlay map[string]string, generics bool) *pkgRp {
	rp := &pkgRp{}
	must(os.MkdirAll(outDir, 0o755))
	bctx := build.Default
	bp, err := bctx.ImportDir(dir, 0)
	if err != nil {
		if _, ok := err.(*build.NoGoError); ok {
			return rp
		}
		// MultiplePackageError etc: fall back to all non-test files
	}
	names := append([]string{}, bp.GoFiles...)
	names = append(names, bp.CgoFiles...)
	sort.Strings(names)
	fset := token.NewFileSet()
	var files []*ast.File
	for _, n := range names {
		f, err := parser.ParseFile(fset, filepath.Join(dir, n), nil, parser.ParseComments)
		if err != nil {
			rp.TypeErrors = append(rp.TypeErrors, "parse: "+err.Error())
			continue
		}
		files = append(files, f)
	}
	rp.Files = len(files)
	info := &types.Info{
		Types:      map[ast.Expr]types.TypeAndValue{},
		Defs:       map[*ast.Ident]types.Object{},
		Uses:       map[*ast.Ident]types.Object{},
		Selections: map[*ast.SelectorExpr]*types.Selection{},
	}
	conf := types.Config{
		Importer: newImporter(fset),
		Error: func(err error) {
			if len(rp.TypeErrors) < 10 {
				rp.TypeErrors = append(rp.TypeErrors, err.Error())
			}
		},
		FakeImportC: true,
	}
	old, _ := os.Getwd()
	os.Chdir(dir)
	pkg, _ := conf.Check(bp.ImportPath, fset, files, info)
	os.Chdir(old)

	for i, f := range files {
		rel, _ := filepath.Rel(*repo, dir)
		fc := &fileCtx{fset: fset, file: f, info: info, pkg: pkg, generics: generics, rp: rp, rel: rel}
		fc.rewrite()
		if !generics && i == 0 {
			// a file added to a module-cache directory through the overlay is
			// not seen by the go command, so the helper rides in an existing file
			fc.addImport("vfmt__", "fmt")
			fc.addImport("vreflect__", "reflect")
			fc.addImport("vsort__", "sort")
			fc.addImport("vsync__", "sync")
		}
		var buf bytes.Buffer
		if err := printer.Fprint(&buf, fset, f); err != nil {
			rp.TypeErrors = append(rp.TypeErrors, "print: "+err.Error())
			continue
		}
		if !generics && i == 0 {
			buf.WriteString(foreignHelper)
		}
		name := filepath.Base(fset.File(f.Pos()).Name())
		dst := filepath.Join(outDir, name)
		must(os.WriteFile(dst, buf.Bytes(), 0o644))
		overlay[filepath.Join(dir, name)] = dst
	}
	return rp
}

func (fc *fileCtx) importName(path string) (string, *ast.ImportSpec) {
	for _, is := range fc.file.Imports {
		p := strings.Trim(is.Path.Value, "\"`")
		if p == path {
			if is.Name != nil {
				return is.Name.Name, is
			}
			return filepath.Base(path), is
		}
	}
	return "", nil
}

func (fc *fileCtx) rewrite() {
	// --- import swaps
	if _, is := fc.importName("time"); is != nil {
		is.Path.Value = `"` + rtPrefix + `vtime"`
		if is.Name == nil {
			// package clause of the shim is `time`; keep references intact
		}
		fc.rp.TimeSwaps++
	}
	if *level >= 2 {
		if _, is := fc.importName("sync"); is != nil {
			is.Path.Value = `"` + rtPrefix + `vsync"`
			fc.rp.SyncSwaps++
		}
	}
	// --- statement-level rewrites
	fc.walkBlocks()
	// --- add imports
	if fc.needVmem {
		fc.addImport("vmem__", rtPrefix+"vmem")
	}
	if fc.needSched {
		fc.addImport("sched__", rtPrefix+"sched")
	}
	if fc.needVchan {
		fc.addImport("vchan__", rtPrefix+"vchan")
	}
}

func (fc *fileCtx) addImport(name, path string) {
	spec := &ast.ImportSpec{Name: ast.NewIdent(name), Path: &ast.BasicLit{Kind: token.STRING, Value: `"` + path + `"`}}
	decl := &ast.GenDecl{Tok: token.IMPORT, Specs: []ast.Spec{spec}}
	// imports must come first among declarations
	fc.file.Decls = append([]ast.Decl{decl}, fc.file.Decls...)
	fc.file.Imports = append(fc.file.Imports, spec)
}

func (fc *fileCtx) fresh(prefix string) *ast.Ident {
	fc.tmp++
	return ast.NewIdent(fmt.Sprintf("%s%d__", prefix, fc.tmp))
}

// walkBlocks visits every statement list and rewrites statements in place.
func (fc *fileCtx) walkBlocks() {
	ast.Inspect(fc.file, func(n ast.Node) bool {
		switch b := n.(type) {
		case *ast.BlockStmt:
			b.List = fc.rewriteList(b.List)
		case *ast.CaseClause:
			b.Body = fc.rewriteList(b.Body)
		case *ast.CommClause:
			b.Body = fc.rewriteList(b.Body)
		}
		return true
	})
	if *level >= 2 {
		fc.rewriteExprs()
	}
	if *level >= 3 && fc.generics {
		fc.rewriteForeignCalls()
		fc.rewriteMapAccesses()
		if fc.wantFields(fc.rel) || *fieldTypesF != "" {
			fc.rewriteFieldAccesses()
		}
	}
}

func (fc *fileCtx) rewriteList(list []ast.Stmt) []ast.Stmt {
	for i, s := range list {
		list[i] = fc.rewriteStmt(s)
	}
	return list
}

func (fc *fileCtx) rewriteStmt(s ast.Stmt) ast.Stmt {
	switch st := s.(type) {
	case *ast.LabeledStmt:
		if rs, ok := st.Stmt.(*ast.RangeStmt); ok && fc.isMap(rs.X) {
			pre := fc.rewriteMapRange(rs)
			if len(pre) == 0 {
				return st
			}
			return &ast.BlockStmt{List: append(pre, st)}
		}
		if sel, ok := st.Stmt.(*ast.SelectStmt); ok && *level >= 2 {
			blk, _ := fc.rewriteSelectLabeled(sel, st.Label)
			return blk
		}
		st.Stmt = fc.rewriteStmt(st.Stmt)
		return st
	case *ast.RangeStmt:
		if fc.isMap(st.X) {
			pre := fc.rewriteMapRange(st)
			if len(pre) == 0 {
				return st
			}
			return &ast.BlockStmt{List: append(pre, st)}
		}
		if *level >= 2 && fc.isChan(st.X) {
			return fc.rewriteChanRange(st)
		}
	case *ast.GoStmt:
		if *level >= 2 {
			return fc.rewriteGo(st)
		}
	case *ast.SendStmt:
		if *level >= 2 {
			fc.needVchan = true
			fc.rp.ChanOps++
			return &ast.ExprStmt{X: call("vchan__", "Send", st.Chan, st.Value)}
		}
	case *ast.SelectStmt:
		if *level >= 2 {
			return fc.rewriteSelect(st)
		}
	}
	return s
}

func call(pkg, fn string, args ...ast.Expr) *ast.CallExpr {
	return &ast.CallExpr{Fun: &ast.SelectorExpr{X: ast.NewIdent(pkg), Sel: ast.NewIdent(fn)}, Args: args}
}

func (fc *fileCtx) typeOf(e ast.Expr) types.Type {
	if fc.info == nil {
		return nil
	}
	if tv, ok := fc.info.Types[e]; ok {
		return tv.Type
	}
	if id, ok := e.(*ast.Ident); ok {
		if o := fc.info.Uses[id]; o != nil {
			return o.Type()
		}
		if o := fc.info.Defs[id]; o != nil {
			return o.Type()
		}
	}
	return nil
}

func (fc *fileCtx) isMap(e ast.Expr) bool {
	t := fc.typeOf(e)
	if t == nil {
		return false
	}
	_, ok := t.Underlying().(*types.Map)
	return ok
}

func (fc *fileCtx) isChan(e ast.Expr) bool {
	t := fc.typeOf(e)
	if t == nil {
		return false
	}
	_, ok := t.Underlying().(*types.Chan)
	return ok
}

func (fc *fileCtx) qualifier(p *types.Package) string {
	if p == fc.pkg {
		return ""
	}
	for _, is := range fc.file.Imports {
		if strings.Trim(is.Path.Value, "\"`") == p.Path() {
			if is.Name != nil {
				return is.Name.Name
			}
			return p.Name()
		}
	}
	return p.Name()
}

// rewriteMapRange:  for k, v := range m { B }
//
//	=>  for _, k := range vmem.Keys(m) { v, ok := m[k]; if !ok { continue }; B }
//
// (m evaluated once through a temporary when it is not a plain identifier or
// selector chain).  Deleting during iteration keeps Go semantics through the
// presence re-check; entries added during iteration are not visited, which Go
// allows.
func (fc *fileCtx) rewriteMapRange(st *ast.RangeStmt) (pre []ast.Stmt) {
	fc.rp.MapRanges++
	if fc.generics {
		fc.needVmem = true
	}
	mt := fc.typeOf(st.X).Underlying().(*types.Map)
	m := st.X
	if !isPure(m) {
		tmp := fc.fresh("m")
		pre = append(pre, &ast.AssignStmt{Lhs: []ast.Expr{tmp}, Tok: token.DEFINE, Rhs: []ast.Expr{m}})
		m = tmp
	}
	// Keys expression
	var keys ast.Expr
	isSI := false
	if b, ok := mt.Key().Underlying().(*types.Basic); ok && b.Kind() == types.String {
		if it, ok := mt.Elem().Underlying().(*types.Interface); ok && it.NumMethods() == 0 {
			isSI = true
		}
	}
	switch {
	case isSI && !fc.generics:
		keys = &ast.CallExpr{Fun: ast.NewIdent("verifKeysSI"), Args: []ast.Expr{&ast.CallExpr{Fun: &ast.MapType{Key: ast.NewIdent("string"), Value: &ast.InterfaceType{Methods: &ast.FieldList{}}}, Args: []ast.Expr{m}}}}
	case isSI:
		keys = call("vmem__", "KeysSI", &ast.CallExpr{Fun: &ast.MapType{Key: ast.NewIdent("string"), Value: &ast.InterfaceType{Methods: &ast.FieldList{}}}, Args: []ast.Expr{m}})
	case fc.generics:
		keys = call("vmem__", "Keys", m)
		if *level >= 3 {
			keys = call("vmem__", "Keys", call("vmem__", "R", m, &ast.BasicLit{Kind: token.STRING, Value: strconvQuote("range:" + fc.exprText(m))}))
		}
	default:
		ktxt := types.TypeString(mt.Key(), fc.qualifier)
		kexpr, err := parser.ParseExpr("[]" + ktxt)
		if err != nil {
			return nil
		}
		keys = &ast.TypeAssertExpr{X: &ast.CallExpr{Fun: ast.NewIdent("verifKeysR"), Args: []ast.Expr{m}}, Type: kexpr}
	}
	key := st.Key
	val := st.Value
	define := st.Tok == token.DEFINE
	var kIdent ast.Expr
	var head []ast.Stmt
	if key == nil || isBlank(key) {
		kIdent = fc.fresh("k")
		define = define || true
	} else {
		kIdent = key
	}
	needVal := val != nil && !isBlank(val)
	// We always need a presence check (deleted-during-iteration semantics).
	okId := fc.fresh("ok")
	idx := &ast.IndexExpr{X: m, Index: kIdent}
	if needVal {
		if st.Tok == token.DEFINE {
			head = append(head, &ast.AssignStmt{Lhs: []ast.Expr{val, okId}, Tok: token.DEFINE, Rhs: []ast.Expr{idx}})
		} else {
			head = append(head,
				&ast.DeclStmt{Decl: &ast.GenDecl{Tok: token.VAR, Specs: []ast.Spec{&ast.ValueSpec{Names: []*ast.Ident{okId}, Type: ast.NewIdent("bool")}}}},
				&ast.AssignStmt{Lhs: []ast.Expr{val, okId}, Tok: token.ASSIGN, Rhs: []ast.Expr{idx}})
		}
	} else {
		head = append(head, &ast.AssignStmt{Lhs: []ast.Expr{ast.NewIdent("_"), okId}, Tok: token.DEFINE, Rhs: []ast.Expr{idx}})
	}
	head = append(head, &ast.IfStmt{Cond: &ast.UnaryExpr{Op: token.NOT, X: okId}, Body: &ast.BlockStmt{List: []ast.Stmt{&ast.BranchStmt{Tok: token.CONTINUE}}}})
	st.Body.List = append(head, st.Body.List...)
	st.X = keys
	st.Key = ast.NewIdent("_")
	st.Value = kIdent
	if key == nil || isBlank(key) {
		st.Tok = token.DEFINE
	}
	_ = define
	return pre
}

func isBlank(e ast.Expr) bool {
	id, ok := e.(*ast.Ident)
	return ok && id.Name == "_"
}

// isPure: identifier / selector chains / derefs / index by pure: cheap and
// side-effect free to evaluate again inside the loop body.
func isPure(e ast.Expr) bool {
	switch x := e.(type) {
	case *ast.Ident:
		return true
	case *ast.SelectorExpr:
		return isPure(x.X)
	case *ast.StarExpr:
		return isPure(x.X)
	case *ast.ParenExpr:
		return isPure(x.X)
	case *ast.IndexExpr:
		return isPure(x.X) && isPure(x.Index)
	case *ast.BasicLit:
		return true
	case *ast.CallExpr:
		// conversion T(x) or method-free accessor: treat conversions as pure
		if len(x.Args) == 1 {
			switch x.Fun.(type) {
			case *ast.MapType, *ast.ParenExpr:
				return isPure(x.Args[0])
			}
		}
	}
	return false
}

// foreignHelper is added to instrumented packages outside the rulio module
// (they cannot import rulio's virtual packages): same contract as vmem.
const foreignHelper = `

// VerifChooser, when set, picks the iteration order (permutation index, 0 =
// sorted) for a map with n >= 2 keys.  Added by the verification overlay.
var (
	verifMu      vsync__.Mutex
	verifChooser func(n int) int
)

func VerifSetChooser(c func(n int) int) {
	verifMu.Lock()
	verifChooser = c
	verifMu.Unlock()
}

func verifPerm(n int) []int {
	verifMu.Lock()
	c := verifChooser
	verifMu.Unlock()
	idx := make([]int, n)
	for i := range idx {
		idx[i] = i
	}
	if c == nil || n < 2 {
		return idx
	}
	p := c(n)
	if p <= 0 {
		return idx
	}
	f := 1
	for i := 2; i < n; i++ {
		f *= i
	}
	out := make([]int, 0, n)
	pool := idx
	for i := n - 1; i >= 0; i-- {
		j := 0
		if f > 0 {
			j = (p / f) % (i + 1)
			p = p % f
		}
		out = append(out, pool[j])
		pool = append(pool[:j:j], pool[j+1:]...)
		if i > 0 {
			f /= i
		}
	}
	return out
}

func verifKeysSI(m map[string]interface{}) []string {
	ks := make([]string, 0, len(m))
	for k := range m {
		ks = append(ks, k)
	}
	vsort__.Strings(ks)
	if len(ks) < 2 {
		return ks
	}
	perm := verifPerm(len(ks))
	out := make([]string, len(ks))
	for i, j := range perm {
		out[i] = ks[j]
	}
	return out
}

func verifKeysR(m interface{}) interface{} {
	v := vreflect__.ValueOf(m)
	ks := v.MapKeys()
	vsort__.Slice(ks, func(i, j int) bool {
		return vfmt__.Sprintf("%v", ks[i].Interface()) < vfmt__.Sprintf("%v", ks[j].Interface())
	})
	perm := verifPerm(len(ks))
	out := vreflect__.MakeSlice(vreflect__.SliceOf(v.Type().Key()), 0, len(ks))
	for _, j := range perm {
		out = vreflect__.Append(out, ks[j])
	}
	return out.Interface()
}
`
