package main

import "go/ast"

func (fc *fileCtx) rewriteChanRange(st *ast.RangeStmt) ast.Stmt { return st }
func (fc *fileCtx) rewriteGo(st *ast.GoStmt) ast.Stmt          { return st }
func (fc *fileCtx) rewriteSelect(st *ast.SelectStmt) ast.Stmt  { return st }
func (fc *fileCtx) rewriteExprs()                              {}
