package main

// Level-2 rewrites: goroutine spawns, channel operations, select.

import (
	"bytes"
	"flag"
	"go/ast"
	"go/printer"
	"go/token"
	"go/types"
	"reflect"
	"strconv"
	"strings"
)

// go f(a, b)  =>  { f__ := f; a0__ := a; a1__ := b; sched__.Go(func() { f__(a0__, a1__) }) }
func (fc *fileCtx) rewriteGo(st *ast.GoStmt) ast.Stmt {
	fc.rp.GoStmts++
	fc.needSched = true
	call := st.Call
	var pre []ast.Stmt
	fn := call.Fun
	// bind the function value (method values bind their receiver now, as `go` does)
	switch fn.(type) {
	case *ast.Ident:
		// plain function or variable: evaluated now for variables; binding keeps it uniform
		f := fc.fresh("f")
		pre = append(pre, &ast.AssignStmt{Lhs: []ast.Expr{f}, Tok: token.DEFINE, Rhs: []ast.Expr{fn}})
		fn = f
	default:
		f := fc.fresh("f")
		pre = append(pre, &ast.AssignStmt{Lhs: []ast.Expr{f}, Tok: token.DEFINE, Rhs: []ast.Expr{fn}})
		fn = f
	}
	var args []ast.Expr
	for _, a := range call.Args {
		v := fc.fresh("a")
		pre = append(pre, &ast.AssignStmt{Lhs: []ast.Expr{v}, Tok: token.DEFINE, Rhs: []ast.Expr{a}})
		args = append(args, v)
	}
	inner := &ast.CallExpr{Fun: fn, Args: args, Ellipsis: call.Ellipsis}
	lit := &ast.FuncLit{Type: &ast.FuncType{Params: &ast.FieldList{}}, Body: &ast.BlockStmt{List: []ast.Stmt{&ast.ExprStmt{X: inner}}}}
	pre = append(pre, &ast.ExprStmt{X: call2("sched__", "Go", lit)})
	return &ast.BlockStmt{List: pre}
}

func call2(pkg, fn string, args ...ast.Expr) *ast.CallExpr { return call(pkg, fn, args...) }

// for x := range c { B }  =>  for { x, ok__ := vchan.Recv2(c); if !ok__ { break }; B }
func (fc *fileCtx) rewriteChanRange(st *ast.RangeStmt) ast.Stmt {
	fc.rp.ChanOps++
	fc.needVchan = true
	ok := fc.fresh("ok")
	var lhs ast.Expr = ast.NewIdent("_")
	tok := token.DEFINE
	if st.Key != nil && !isBlank(st.Key) {
		lhs = st.Key
		if st.Tok == token.ASSIGN {
			tok = token.ASSIGN
		}
	}
	var head []ast.Stmt
	if tok == token.ASSIGN {
		head = append(head,
			&ast.DeclStmt{Decl: &ast.GenDecl{Tok: token.VAR, Specs: []ast.Spec{&ast.ValueSpec{Names: []*ast.Ident{ok}, Type: ast.NewIdent("bool")}}}},
			&ast.AssignStmt{Lhs: []ast.Expr{lhs, ok}, Tok: token.ASSIGN, Rhs: []ast.Expr{call("vchan__", "Recv2", st.X)}})
	} else {
		head = append(head, &ast.AssignStmt{Lhs: []ast.Expr{lhs, ok}, Tok: token.DEFINE, Rhs: []ast.Expr{call("vchan__", "Recv2", st.X)}})
	}
	head = append(head, &ast.IfStmt{Cond: &ast.UnaryExpr{Op: token.NOT, X: ok}, Body: &ast.BlockStmt{List: []ast.Stmt{&ast.BranchStmt{Tok: token.BREAK}}}})
	body := &ast.BlockStmt{List: append(head, st.Body.List...)}
	return &ast.ForStmt{Body: body}
}

// select { ... }  =>  { i__, r__, ok__ := vchan.Select(hasDefault, cases...); _, _ = r__, ok__; switch i__ { ... } }
func (fc *fileCtx) rewriteSelect(st *ast.SelectStmt) ast.Stmt {
	blk, _ := fc.rewriteSelectLabeled(st, nil)
	return blk
}

func (fc *fileCtx) rewriteSelectLabeled(st *ast.SelectStmt, label *ast.Ident) (ast.Stmt, bool) {
	fc.rp.Selects++
	fc.needVchan = true
	idx, rv, ok := fc.fresh("i"), fc.fresh("r"), fc.fresh("ok")
	hasDefault := false
	var caseArgs []ast.Expr
	var clauses []ast.Stmt
	var pre []ast.Stmt
	n := 0
	for _, cl := range st.Body.List {
		cc := cl.(*ast.CommClause)
		if cc.Comm == nil {
			hasDefault = true
			clauses = append(clauses, &ast.CaseClause{List: nil, Body: cc.Body})
			continue
		}
		var body []ast.Stmt
		switch cm := cc.Comm.(type) {
		case *ast.SendStmt:
			caseArgs = append(caseArgs, call("vchan__", "S", cm.Chan, cm.Value))
		case *ast.ExprStmt:
			ue := unparen(cm.X).(*ast.UnaryExpr)
			caseArgs = append(caseArgs, call("vchan__", "R", ue.X))
		case *ast.AssignStmt:
			ue := unparen(cm.Rhs[0]).(*ast.UnaryExpr)
			// the channel expression is evaluated once, up front: bind it when impure
			chx := ue.X
			if !isPure(chx) {
				tmp := fc.fresh("c")
				pre = append(pre, &ast.AssignStmt{Lhs: []ast.Expr{tmp}, Tok: token.DEFINE, Rhs: []ast.Expr{chx}})
				chx = tmp
			}
			caseArgs = append(caseArgs, call("vchan__", "R", chx))
			val := call("vchan__", "As", chx, rv)
			if len(cm.Lhs) == 2 {
				body = append(body, &ast.AssignStmt{Lhs: cm.Lhs, Tok: cm.Tok, Rhs: []ast.Expr{val, ok}})
			} else {
				body = append(body, &ast.AssignStmt{Lhs: cm.Lhs, Tok: cm.Tok, Rhs: []ast.Expr{val}})
			}
			if cm.Tok == token.DEFINE {
				// avoid "declared and not used" for variables the body ignores
				for _, l := range cm.Lhs {
					if id, isId := l.(*ast.Ident); isId && id.Name != "_" {
						body = append(body, &ast.AssignStmt{Lhs: []ast.Expr{ast.NewIdent("_")}, Tok: token.ASSIGN, Rhs: []ast.Expr{ast.NewIdent(id.Name)}})
					}
				}
			}
		}
		body = append(body, cc.Body...)
		clauses = append(clauses, &ast.CaseClause{List: []ast.Expr{&ast.BasicLit{Kind: token.INT, Value: itoa(n)}}, Body: body})
		n++
	}
	hd := ast.NewIdent("false")
	if hasDefault {
		hd = ast.NewIdent("true")
	}
	args := append([]ast.Expr{hd}, caseArgs...)
	init := &ast.AssignStmt{Lhs: []ast.Expr{idx, rv, ok}, Tok: token.DEFINE, Rhs: []ast.Expr{call("vchan__", "Select", args...)}}
	use := &ast.AssignStmt{Lhs: []ast.Expr{ast.NewIdent("_"), ast.NewIdent("_")}, Tok: token.ASSIGN, Rhs: []ast.Expr{rv, ok}}
	var sw ast.Stmt = &ast.SwitchStmt{Tag: idx, Body: &ast.BlockStmt{List: clauses}}
	if label != nil {
		sw = &ast.LabeledStmt{Label: label, Stmt: sw}
	}
	return &ast.BlockStmt{List: append(pre, init, use, sw)}, true
}

func unparen(e ast.Expr) ast.Expr {
	for {
		p, ok := e.(*ast.ParenExpr)
		if !ok {
			return e
		}
		e = p.X
	}
}

func itoa(n int) string {
	if n == 0 {
		return "0"
	}
	s := ""
	for n > 0 {
		s = string(rune('0'+n%10)) + s
		n /= 10
	}
	return s
}

// rewriteExprs replaces the remaining channel expressions anywhere in the file:
//
//	v, ok := <-c   =>  v, ok := vchan.Recv2(c)
//	<-c            =>  vchan.Recv(c)
//	close(c)       =>  vchan.Close(c)
func (fc *fileCtx) rewriteExprs() {
	// two-value receives first (statement level)
	ast.Inspect(fc.file, func(n ast.Node) bool {
		switch st := n.(type) {
		case *ast.AssignStmt:
			if len(st.Lhs) == 2 && len(st.Rhs) == 1 {
				if ue, ok := unparen(st.Rhs[0]).(*ast.UnaryExpr); ok && ue.Op == token.ARROW {
					st.Rhs[0] = call("vchan__", "Recv2", ue.X)
					fc.needVchan = true
					fc.rp.ChanOps++
				}
			}
		case *ast.ValueSpec:
			if len(st.Names) == 2 && len(st.Values) == 1 {
				if ue, ok := unparen(st.Values[0]).(*ast.UnaryExpr); ok && ue.Op == token.ARROW {
					st.Values[0] = call("vchan__", "Recv2", ue.X)
					fc.needVchan = true
					fc.rp.ChanOps++
				}
			}
		}
		return true
	})
	replaceExprs(fc.file, func(e ast.Expr) ast.Expr {
		switch x := e.(type) {
		case *ast.UnaryExpr:
			if x.Op == token.ARROW {
				fc.needVchan = true
				fc.rp.ChanOps++
				return call("vchan__", "Recv", x.X)
			}
		case *ast.CallExpr:
			if id, ok := x.Fun.(*ast.Ident); ok && id.Name == "close" && len(x.Args) == 1 && fc.isChanOrUnknown(x.Args[0]) {
				fc.needVchan = true
				fc.rp.ChanOps++
				return call("vchan__", "Close", x.Args[0])
			}
		}
		return nil
	})
}

func (fc *fileCtx) isChanOrUnknown(e ast.Expr) bool {
	t := fc.typeOf(e)
	if t == nil {
		return true
	}
	return fc.isChan(e)
}

var exprType = reflect.TypeOf((*ast.Expr)(nil)).Elem()

// replaceExprs walks every ast.Expr-typed field (and []ast.Expr element) under
// root, bottom-up, replacing an expression when f returns non-nil.
func replaceExprs(root ast.Node, f func(ast.Expr) ast.Expr) {
	var visit func(v reflect.Value)
	visit = func(v reflect.Value) {
		switch v.Kind() {
		case reflect.Ptr:
			if v.IsNil() {
				return
			}
			if _, isObj := v.Interface().(*ast.Object); isObj {
				return
			}
			if _, isScope := v.Interface().(*ast.Scope); isScope {
				return
			}
			visit(v.Elem())
		case reflect.Interface:
			if v.IsNil() {
				return
			}
			visit(v.Elem())
			if v.Type() == exprType && v.CanSet() {
				if r := f(v.Interface().(ast.Expr)); r != nil {
					v.Set(reflect.ValueOf(r))
				}
			}
		case reflect.Struct:
			for i := 0; i < v.NumField(); i++ {
				fv := v.Field(i)
				if fv.CanInterface() {
					visit(fv)
				}
			}
		case reflect.Slice:
			for i := 0; i < v.Len(); i++ {
				visit(v.Index(i))
			}
		}
	}
	visit(reflect.ValueOf(root))
}

// ---- level 3: map accesses (happens-before race detection) -------------------

func (fc *fileCtx) exprText(e ast.Expr) string {
	var buf bytes.Buffer
	printer.Fprint(&buf, token.NewFileSet(), e)
	return buf.String()
}

func funcName(fd *ast.FuncDecl, pkg string) string {
	n := pkg + "."
	if fd.Recv != nil && len(fd.Recv.List) == 1 {
		t := fd.Recv.List[0].Type
		if st, ok := t.(*ast.StarExpr); ok {
			t = st.X
		}
		if id, ok := t.(*ast.Ident); ok {
			n += id.Name + "."
		}
	}
	return n + fd.Name.Name
}

// rewriteMapAccesses wraps the map operand of index expressions, delete() and
// len() in vmem.R / vmem.W so that the scheduler's happens-before detector sees
// every map read and write (with a line-number-free site name).
func (fc *fileCtx) rewriteMapAccesses() {
	pkgName := fc.file.Name.Name
	for _, d := range fc.file.Decls {
		fd, ok := d.(*ast.FuncDecl)
		if !ok || fd.Body == nil {
			continue
		}
		fn := funcName(fd, pkgName)
		writes := map[*ast.IndexExpr]bool{}
		ast.Inspect(fd.Body, func(n ast.Node) bool {
			switch st := n.(type) {
			case *ast.AssignStmt:
				for _, l := range st.Lhs {
					if ix, ok := unparen(l).(*ast.IndexExpr); ok {
						writes[ix] = true
					}
				}
			case *ast.IncDecStmt:
				if ix, ok := unparen(st.X).(*ast.IndexExpr); ok {
					writes[ix] = true
				}
			}
			return true
		})
		wrap := func(m ast.Expr, write bool) ast.Expr {
			fc.needVmem = true
			fc.rp.MapAccess++
			f := "R"
			if write {
				f = "W"
			}
			site := fn + ":" + fc.exprText(m)
			return call("vmem__", f, m, &ast.BasicLit{Kind: token.STRING, Value: strconvQuote(site)})
		}
		replaceExprs(fd.Body, func(e ast.Expr) ast.Expr {
			switch x := e.(type) {
			case *ast.IndexExpr:
				if fc.isMap(x.X) {
					x.X = wrap(x.X, writes[x])
				}
			case *ast.CallExpr:
				if id, ok := x.Fun.(*ast.Ident); ok && len(x.Args) >= 1 && fc.isMap(x.Args[0]) {
					switch id.Name {
					case "delete":
						x.Args[0] = wrap(x.Args[0], true)
					case "len":
						x.Args[0] = wrap(x.Args[0], false)
					}
				}
			}
			return nil
		})
	}
}

func strconvQuote(s string) string { return strconv.Quote(s) }

// ---- level 3, selected packages: struct fields reached through a pointer ------

var fieldsF = flag.String("fields", "sys,cron", "packages (relative dirs) whose pointer-reached struct field accesses are instrumented at level 3")

var fieldTypesF = flag.String("fieldtypes", "", "qualified struct types (pkgname.Type, comma separated) whose pointer-reached fields are instrumented at level 3 in every instrumented package, in addition to -fields")

func wantFieldType(t types.Type) bool {
	if *fieldTypesF == "" {
		return false
	}
	p, ok := t.Underlying().(*types.Pointer)
	if !ok {
		return false
	}
	n, ok := p.Elem().(*types.Named)
	if !ok || n.Obj() == nil || n.Obj().Pkg() == nil {
		return false
	}
	q := n.Obj().Pkg().Name() + "." + n.Obj().Name()
	for _, x := range strings.Split(*fieldTypesF, ",") {
		if strings.TrimSpace(x) == q {
			return true
		}
	}
	return false
}

func (fc *fileCtx) wantFields(rel string) bool {
	for _, p := range strings.Split(*fieldsF, ",") {
		if strings.TrimSpace(p) == rel {
			return true
		}
	}
	return false
}

// rewriteFieldAccesses wraps p.f (p a pointer, f a field) in *vmem.FR(&p.f, site)
// / *vmem.FW(&p.f, site): a scheduling point at shared locations and an access
// record for the happens-before race detector.
func (fc *fileCtx) rewriteFieldAccesses() {
	allTypes := fc.wantFields(fc.rel) // otherwise only the types named by -fieldtypes
	pkgName := fc.file.Name.Name
	for _, d := range fc.file.Decls {
		fd, ok := d.(*ast.FuncDecl)
		if !ok || fd.Body == nil {
			continue
		}
		fn := funcName(fd, pkgName)
		writes := map[ast.Expr]bool{}
		skip := map[ast.Expr]bool{}
		var markSkip func(e ast.Expr)
		markSkip = func(e ast.Expr) {
			for {
				skip[e] = true
				switch x := e.(type) {
				case *ast.SelectorExpr:
					e = x.X
				case *ast.ParenExpr:
					e = x.X
				case *ast.IndexExpr:
					e = x.X
				case *ast.StarExpr:
					e = x.X
				default:
					return
				}
			}
		}
		ast.Inspect(fd.Body, func(n ast.Node) bool {
			switch st := n.(type) {
			case *ast.AssignStmt:
				for _, l := range st.Lhs {
					writes[unparen(l)] = true
				}
			case *ast.IncDecStmt:
				writes[unparen(st.X)] = true
			case *ast.UnaryExpr:
				if st.Op == token.AND {
					markSkip(st.X)
				}
			case *ast.CallExpr:
				// method calls on a field with pointer receiver take its address implicitly:
				// x.f.M() — keep x.f addressable by not copying: handled by *FR(&x.f) which is addressable
			case *ast.RangeStmt:
				if st.Tok == token.ASSIGN {
					if st.Key != nil {
						writes[unparen(st.Key)] = true
					}
					if st.Value != nil {
						writes[unparen(st.Value)] = true
					}
				}
			}
			return true
		})
		replaceExprs(fd.Body, func(e ast.Expr) ast.Expr {
			se, ok := e.(*ast.SelectorExpr)
			if !ok || skip[e] {
				return nil
			}
			sel := fc.info.Selections[se]
			if sel == nil || sel.Kind() != types.FieldVal {
				return nil
			}
			// base must be a pointer (explicit deref => addressable) and a plain chain
			bt := fc.typeOf(se.X)
			if bt == nil {
				return nil
			}
			if _, isPtr := bt.Underlying().(*types.Pointer); !isPtr {
				return nil
			}
			if !allTypes && !wantFieldType(bt) {
				return nil
			}
			if !isPure(se.X) {
				return nil
			}
			if len(sel.Index()) != 1 {
				return nil // promoted through an embedded field: leave alone
			}
			if _, isFunc := sel.Type().Underlying().(*types.Signature); isFunc {
				return nil
			}
			f := "FR"
			if writes[e] {
				f = "FW"
			}
			fc.needVmem = true
			fc.rp.FieldAccess++
			site := fn + ":" + fc.exprText(se)
			return &ast.ParenExpr{X: &ast.StarExpr{X: call("vmem__", f, &ast.UnaryExpr{Op: token.AND, X: se}, &ast.BasicLit{Kind: token.STRING, Value: strconv.Quote(site)})}}
		})
	}
}

// ---- level 3: objects of other packages that are not safe for concurrent use ----

// foreignUnsafe lists types of the standard library whose methods must not be
// called concurrently on one value.  A method call on such a value is recorded as
// an access to the object (vmem.OW / vmem.OR) for the happens-before detector:
// rulio's own maps and fields are instrumented directly, but a race *inside* a
// foreign object reached through a rulio variable would otherwise be invisible.
var foreignUnsafe = map[string]bool{
	"math/rand.Rand": true, "bytes.Buffer": true, "bytes.Reader": true,
	"strings.Builder": true, "strings.Reader": true, "strings.Replacer": false,
	"bufio.Reader": true, "bufio.Writer": true, "bufio.Scanner": true, "bufio.ReadWriter": true,
	"container/list.List": true, "container/ring.Ring": true,
	"encoding/json.Encoder": true, "encoding/json.Decoder": true,
	"encoding/gob.Encoder": false, "encoding/gob.Decoder": false,
	"math/big.Int": true, "math/big.Float": true, "math/big.Rat": true,
	"text/tabwriter.Writer": true, "encoding/csv.Writer": true, "encoding/csv.Reader": true,
	"compress/gzip.Writer": true, "compress/gzip.Reader": true,
}

// methods that only read the object
var foreignReadOnly = map[string]bool{"Len": true, "String": true, "Bytes": true, "Cap": true, "Size": true, "Buffered": true, "Available": true, "Front": true, "Back": true,
	// math/big values read concurrently (shared constants)
	"Cmp": true, "CmpAbs": true, "Sign": true, "Int64": true, "Uint64": true, "IsInt64": true, "IsUint64": true, "BitLen": true, "Bit": true, "Text": true, "Float64": true, "IsInt": true, "ProbablyPrime": false}

func (fc *fileCtx) rewriteForeignCalls() {
	pkgName := fc.file.Name.Name
	for _, d := range fc.file.Decls {
		fd, ok := d.(*ast.FuncDecl)
		if !ok || fd.Body == nil {
			continue
		}
		fn := funcName(fd, pkgName)
		replaceExprs(fd.Body, func(e ast.Expr) ast.Expr {
			ce, ok := e.(*ast.CallExpr)
			if !ok {
				return nil
			}
			se, ok := ce.Fun.(*ast.SelectorExpr)
			if !ok {
				return nil
			}
			sel := fc.info.Selections[se]
			if sel == nil || sel.Kind() != types.MethodVal || len(sel.Index()) != 1 {
				return nil
			}
			rt := sel.Recv()
			isPtr := false
			if p, ok := rt.(*types.Pointer); ok {
				rt, isPtr = p.Elem(), true
			}
			n, ok := rt.(*types.Named)
			if !ok || n.Obj() == nil || n.Obj().Pkg() == nil {
				return nil
			}
			if !foreignUnsafe[n.Obj().Pkg().Path()+"."+n.Obj().Name()] {
				return nil
			}
			arg := se.X
			if !isPtr {
				f, ok := sel.Obj().(*types.Func)
				if !ok {
					return nil
				}
				sig, ok := f.Type().(*types.Signature)
				if !ok || sig.Recv() == nil {
					return nil
				}
				if _, pr := sig.Recv().Type().(*types.Pointer); !pr {
					return nil
				}
				arg = &ast.UnaryExpr{Op: token.AND, X: se.X}
			}
			f := "OW"
			if foreignReadOnly[se.Sel.Name] {
				f = "OR"
			}
			site := fn + ":" + fc.exprText(se.X)
			se.X = call("vmem__", f, arg, &ast.BasicLit{Kind: token.STRING, Value: strconv.Quote(site)})
			fc.needVmem = true
			fc.rp.ForeignCalls++
			return nil
		})
	}
}
