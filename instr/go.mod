module verifinstr

go 1.21
