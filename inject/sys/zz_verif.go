package sys

// This file is NOT part of rulio.  It is added to package sys through the
// verification build overlay (see /verif/instr).

import (
	. "github.com/Comcast/rulio/core"
)

// VerifSetStorage injects the Storage a System will use (instead of the one
// GetStorage would build lazily from the config).
func (sys *System) VerifSetStorage(s Storage) { sys.storage = s }

// VerifStorage returns the System's current Storage without creating one.
func (sys *System) VerifStorage() Storage { return sys.storage }

// VerifCachedLocation returns the cached *Location for name (nil if absent).
func (sys *System) VerifCachedLocation(name string) *Location {
	cls := sys.CachedLocations
	cls.Lock()
	defer cls.Unlock()
	cl, have := cls.locs[name]
	if !have || cl == nil {
		return nil
	}
	return cl.Location
}
