package core

// This file is NOT part of rulio.  It is added to package core through the
// verification build overlay (see /verif/instr) and gives the harness a
// lock-free, canonical view of private state, used (a) as the deduplication
// key of explicit-state search (equal dump + equal clock + equal storage =>
// equal futures, since the code is deterministic given those) and (b) as the
// "privileged snapshot" for no-side-effect oracles.

import (
	"encoding/json"
	"reflect"
	"sort"
	"unsafe"
)

// verifExtras renders every plain-valued field of a state struct that the
// explicit dump below does not know about (bool, numbers, strings, and the
// sorted keys of string-keyed maps).  A change to rulio that adds hidden state
// (a cached flag, a scratch set) thereby becomes part of the canonical state
// key without anybody having to teach the dump about it; otherwise two states
// that differ only in such a field would be merged although their futures
// differ.
func verifExtras(ptr interface{}, known map[string]bool) map[string]interface{} {
	out := map[string]interface{}{}
	v := reflect.ValueOf(ptr)
	if v.Kind() != reflect.Ptr || v.IsNil() || v.Elem().Kind() != reflect.Struct {
		return out
	}
	v = v.Elem()
	t := v.Type()
	for i := 0; i < t.NumField(); i++ {
		f := t.Field(i)
		if known[f.Name] {
			continue
		}
		fv := v.Field(i)
		switch fv.Kind() {
		case reflect.Bool:
			out[f.Name] = fv.Bool()
		case reflect.Int, reflect.Int8, reflect.Int16, reflect.Int32, reflect.Int64:
			out[f.Name] = fv.Int()
		case reflect.Uint, reflect.Uint8, reflect.Uint16, reflect.Uint32, reflect.Uint64:
			out[f.Name] = fv.Uint()
		case reflect.Float32, reflect.Float64:
			out[f.Name] = fv.Float()
		case reflect.String:
			out[f.Name] = fv.String()
		case reflect.Map:
			if fv.Type().Key().Kind() == reflect.String {
				ks := make([]string, 0, fv.Len())
				for _, k := range fv.MapKeys() {
					ks = append(ks, k.String())
				}
				sort.Strings(ks)
				out[f.Name] = ks
			}
		case reflect.Slice:
			out[f.Name] = fv.Len()
		}
	}
	return out
}

// VerifState returns the location's State.
func (loc *Location) VerifState() State { return loc.state }

func verifSortedSet(s StringSet) []string {
	acc := make([]string, 0, len(s))
	for k := range s {
		acc = append(acc, k)
	}
	sort.Strings(acc)
	return acc
}

func verifDumpPI(pi *PatternIndex) interface{} {
	if pi == nil {
		return nil
	}
	m := map[string]interface{}{}
	if len(pi.Ids) > 0 {
		m["ids"] = verifSortedSet(pi.Ids)
	}
	if pi.Var != nil {
		if d := verifDumpPI(pi.Var); d != nil {
			m["var"] = d
		}
	}
	if pi.Map != nil {
		if d := verifDumpPI(pi.Map); d != nil {
			m["map"] = d
		}
	}
	if len(pi.String) > 0 {
		sm := map[string]interface{}{}
		for k, v := range pi.String {
			if d := verifDumpPI(v); d != nil {
				sm[k] = d
			}
		}
		if len(sm) > 0 {
			m["str"] = sm
		}
	}
	if len(m) == 0 {
		// Empty trie nodes are unobservable leftovers of removals.
		return nil
	}
	return m
}

// VerifDump renders the private state of a State implementation as a
// JSON-able value with deterministic content.
func VerifDump(s State) map[string]interface{} { return verifDump(s, false) }

func verifDump(s State, extras bool) map[string]interface{} {
	out := map[string]interface{}{}
	switch st := s.(type) {
	case *IndexedState:
		out["kind"] = "indexed"
		facts := map[string]interface{}{}
		for id, f := range st.IdToFact {
			facts[id] = map[string]interface{}(f)
		}
		out["facts"] = facts
		terms := map[string]interface{}{}
		if st.FactIndex != nil {
			for t, ids := range st.FactIndex.Index {
				terms[t] = verifSortedSet(ids)
			}
		}
		out["terms"] = terms
		out["rules"] = verifDumpPI(st.RuleIndex)
		out["cached"] = verifCachedIds(st)
		out["loaded"] = st.Loaded
		if x := verifExtras(st, map[string]bool{"Name": true, "IdToFact": true, "FactIndex": true, "RuleIndex": true, "Loaded": true, "cachedRules": true}); extras && len(x) > 0 {
			out["extra"] = x
		}
	case *LinearState:
		out["kind"] = "linear"
		facts := map[string]interface{}{}
		for id, rf := range st.Facts {
			facts[id] = map[string]interface{}{"m": rf.M, "js": string(rf.JS)}
		}
		out["facts"] = facts
		out["cached"] = verifCachedIds(st)
		if x := verifExtras(st, map[string]bool{"Name": true, "Facts": true, "cachedRules": true}); extras && len(x) > 0 {
			out["extra"] = x
		}
	default:
		out["kind"] = "unknown"
	}
	return out
}

// VerifKeyJSON is the canonical state KEY of explicit-state search: the dump
// plus every plain-valued field of the state struct the dump does not know
// (verifExtras).  Oracles ("this operation must not change the state") keep
// using VerifDumpJSON, so a benign cache or counter field added by a change
// cannot raise an alarm; it can only make the search distinguish more states.
func VerifKeyJSON(s State) string {
	bs, err := json.Marshal(verifDump(s, true))
	if err != nil {
		return "dump-error:" + err.Error()
	}
	return string(bs)
}

// VerifDumpJSON is VerifDump rendered (map keys sorted by encoding/json).
func VerifDumpJSON(s State) string {
	bs, err := json.Marshal(VerifDump(s))
	if err != nil {
		return "dump-error:" + err.Error()
	}
	return string(bs)
}

// VerifFactIds lists the ids the state holds in memory (no expiry side effects).
func VerifFactIds(s State) []string {
	var acc []string
	switch st := s.(type) {
	case *IndexedState:
		for id := range st.IdToFact {
			acc = append(acc, id)
		}
	case *LinearState:
		for id := range st.Facts {
			acc = append(acc, id)
		}
	}
	sort.Strings(acc)
	return acc
}

// VerifCachedRule exposes a cached compiled rule (nil when absent).
func VerifCachedRule(s State, id string) *Rule {
	m := verifCachedRulesField(s)
	if !m.IsValid() || m.Kind() != reflect.Map || m.Type().Key().Kind() != reflect.String {
		return nil
	}
	v := m.MapIndex(reflect.ValueOf(id))
	if !v.IsValid() {
		return nil
	}
	r, _ := v.Interface().(*Rule)
	return r
}

// verifCachedRulesField reaches the per-state cache of compiled rules by name, so
// that a change which moves or removes that private field still builds under the
// harness (the cache then simply reads as empty) instead of ending in a tooling error.
func verifCachedRulesField(s interface{}) reflect.Value {
	v := reflect.ValueOf(s)
	if v.Kind() != reflect.Ptr || v.IsNil() || v.Elem().Kind() != reflect.Struct {
		return reflect.Value{}
	}
	f := v.Elem().FieldByName("cachedRules")
	if !f.IsValid() || !f.CanAddr() {
		return reflect.Value{}
	}
	return reflect.NewAt(f.Type(), unsafe.Pointer(f.UnsafeAddr())).Elem()
}

func verifCachedIds(s interface{}) []string {
	cr := []string{}
	m := verifCachedRulesField(s)
	if m.IsValid() && m.Kind() == reflect.Map && m.Type().Key().Kind() == reflect.String {
		for _, k := range m.MapKeys() {
			cr = append(cr, k.String())
		}
	}
	sort.Strings(cr)
	return cr
}

// VerifBreakerState exposes an OutboundBreaker's window for state hashing.
func VerifBreakerState(b *OutboundBreaker) (counts []int64, updatedUnixNano int64, limit int64, interval int64) {
	b.Lock()
	defer b.Unlock()
	counts = append([]int64(nil), b.counts...)
	return counts, b.updated.UnixNano(), b.limit, int64(b.interval)
}
