package main

// This file is NOT part of rulio.  It is added to package main of crolt
// through the verification build overlay.  When VERIF_CROLT is set the crolt
// binary, instead of serving, runs an explicit-state breadth-first search over
// operation sequences of the real Bolt-backed Cron (under the harness-owned
// virtual clock, HTTP through a recording RoundTripper) and prints one JSON
// line per violation plus a final statistics line.  Engine SEQ, self-contained
// because package main cannot be imported by the harness.

import (
	"crypto/sha256"
	"encoding/json"
	"fmt"
	"io"
	"io/ioutil"
	"log"
	"net/http"
	"net/http/httptest"
	"os"
	"path/filepath"
	"sort"
	"strconv"
	"strings"
	stdtime "time"

	"github.com/boltdb/bolt"

	vtime "github.com/Comcast/rulio/verifrt/vtime"
)

func init() {
	if os.Getenv("VERIF_CROLT") == "" {
		return
	}
	log.SetOutput(ioutil.Discard)
	verifCroltMain()
	os.Exit(0)
}

type vcOp struct {
	Kind, Account, Id, Expr string
	D                     stdtime.Duration
	// Kind "intr": run A (an add) and, at A's K-th clock read (all of Add's clock
	// reads lie between its existence check and its write transaction, outside any
	// Bolt transaction), run Y to completion as another client would
	A, Y *vcOp
	K    int
}

func (o vcOp) String() string {
	switch o.Kind {
	case "add":
		return fmt.Sprintf("Add(%s,%s,%q)", o.Account, o.Id, o.Expr)
	case "del":
		return fmt.Sprintf("Delete(%s,%s)", o.Account, o.Id)
	case "delacct":
		return fmt.Sprintf("DeleteAccount(%s)", o.Account)
	case "work":
		return fmt.Sprintf("work(%s)", o.Id)
	case "adv":
		return fmt.Sprintf("clock+=%v", o.D)
	case "reopen":
		return "close-and-reopen-DB"
	case "intr":
		return fmt.Sprintf("%s interrupted at its clock read #%d by a second client's %s", o.A, o.K, o.Y)
	case "intr-out":
		return fmt.Sprintf("%s with a second client's %s arriving while its first outbound request is in flight", o.A, o.Y)
	}
	return "?"
}

const vcTTL = 3 * stdtime.Second

var vcT0 = stdtime.Date(2030, 1, 1, 0, 0, 0, 0, stdtime.UTC)

func vcOps() []vcOp {
	ops := []vcOp{
		{Kind: "work", Id: "0"}, {Kind: "work", Id: "1"},
		{Kind: "adv", D: 500 * stdtime.Millisecond}, {Kind: "adv", D: stdtime.Second}, {Kind: "adv", D: vcTTL},
		{Kind: "add", Account: "p", Id: "1", Expr: "1s"},
		{Kind: "add", Account: "p", Id: "1", Expr: "* * * * * * *"},
		{Kind: "add", Account: "p", Id: "2", Expr: "1s"},
		{Kind: "add", Account: "q", Id: "1", Expr: "1500ms"},
		{Kind: "del", Account: "p", Id: "1"}, {Kind: "del", Account: "q", Id: "1"},
		{Kind: "delacct", Account: "p"},
		{Kind: "reopen"},
	}
	add1 := vcOp{Kind: "add", Account: "p", Id: "1", Expr: "1s"}
	addR := vcOp{Kind: "add", Account: "p", Id: "1", Expr: "* * * * * * *"}
	del := vcOp{Kind: "del", Account: "p", Id: "1"}
	dela := vcOp{Kind: "delacct", Account: "p"}
	work := vcOp{Kind: "work", Id: vcPart("p")}
	for _, c := range []struct {
		a, y vcOp
		k    int
	}{{add1, addR, 1}, {addR, add1, 1}, {add1, del, 1}, {add1, work, 1}, {add1, dela, 2}, {addR, addR, 2}} {
		a, y := c.a, c.y
		ops = append(ops, vcOp{Kind: "intr", A: &a, Y: &y, K: c.k})
	}
	for _, y := range []vcOp{del, add1} {
		a, y := work, y
		ops = append(ops, vcOp{Kind: "intr-out", A: &a, Y: &y})
	}
	return ops
}

func vcPart(account string) string {
	return (&Cron{Partitions: 2}).Partition(account)
}

type vcFire struct {
	aid string
	at  stdtime.Time
}

type vcWorld struct {
	file  string
	db    *bolt.DB
	cron  *Cron
	clock *vtime.Frozen
	fires []vcFire
	// model bits
	deleted map[string]bool          // aid deleted and not re-added since
	once    map[string]bool          // aid added as a one-shot (current incarnation)
	fired   map[string]int           // firings of the current incarnation
	due     map[string]stdtime.Time  // due instant read from the job's TId before each work()
	intr    *vcIntr
	// outIntr: a second client's operation delivered while work()'s first outbound
	// request is in flight - only when no Bolt write transaction of ours is open
	// (a client arriving during one simply waits for it, i.e. runs after work())
	outIntr   *vcIntr
	outIntrAt int // len(fires) when it was delivered
	inTx      bool
}

type vcIntr struct {
	k, n     int
	y        vcOp
	done     bool
	sig, msg string
}

// vcClock is the virtual clock; a clock read is also the point where a pending
// interruption (a second client's whole operation) is delivered.
type vcClock struct {
	*vtime.Frozen
	w *vcWorld
}

func (c vcClock) Now() stdtime.Time {
	if in := c.w.intr; in != nil && !in.done {
		in.n++
		if in.n == in.k {
			in.done = true
			in.sig, in.msg = c.w.apply(in.y)
		}
	}
	return c.Frozen.Now()
}

type vcRT struct{ w *vcWorld }

func (rt vcRT) RoundTrip(req *http.Request) (*http.Response, error) {
	aid := strings.TrimPrefix(req.URL.Path, "/")
	rt.w.fires = append(rt.w.fires, vcFire{aid, rt.w.clock.Now()})
	if in := rt.w.outIntr; in != nil && !in.done && !rt.w.inTx {
		in.done = true
		rt.w.outIntrAt = len(rt.w.fires)
		in.sig, in.msg = rt.w.apply(in.y)
	}
	return &http.Response{StatusCode: 200, Body: io.NopCloser(strings.NewReader("ok")), Header: http.Header{}, Request: req}, nil
}

var vcSeq int

func vcNew(dir string) *vcWorld {
	vcSeq++
	w := &vcWorld{file: filepath.Join(dir, fmt.Sprintf("crolt-%d-%d.db", os.Getpid(), vcSeq)),
		deleted: map[string]bool{}, once: map[string]bool{}, fired: map[string]int{}, due: map[string]stdtime.Time{}}
	w.clock = vtime.NewFrozen(vcT0)
	vtime.SetBackend(vcClock{w.clock, w})
	http.DefaultClient = &http.Client{Transport: vcRT{w}}
	w.open()
	return w
}

func (w *vcWorld) open() {
	db, err := bolt.Open(w.file, 0644, &bolt.Options{Timeout: stdtime.Second})
	if err != nil {
		panic(err)
	}
	w.db = db
	c, err := NewCron(db, 2, 0, vcTTL)
	if err != nil {
		panic(err)
	}
	w.cron = c
}

func (w *vcWorld) close() {
	w.db.Close()
	os.Remove(w.file)
}

func (w *vcWorld) scan() map[string]map[string]string {
	out := map[string]map[string]string{}
	w.cron.DoBuckets(func(b string) error {
		out[b] = map[string]string{}
		return w.cron.Scan(b, func(_, k, v string) (bool, error) {
			out[b][k] = v
			return false, nil
		})
	})
	return out
}

type vcViolation struct {
	Signature string   `json:"signature"`
	Summary   string   `json:"summary"`
	Ops       []string `json:"ops"`
	Path      []int    `json:"path"`
}

func tidTime(tid string) (stdtime.Time, bool) {
	i := strings.Index(tid, ",")
	if i < 0 {
		return stdtime.Time{}, false
	}
	t, err := stdtime.Parse(stdtime.RFC3339Nano, tid[:i])
	return t, err == nil
}

// apply runs one operation and returns a violation text ("" if none).
func (w *vcWorld) apply(op vcOp) (sig, msg string) {
	switch op.Kind {
	case "add":
		// through the HTTP handler, as a client would
		body, _ := json.Marshal(map[string]string{"account": op.Account, "id": op.Id, "schedule": op.Expr, "url": "http://verif/" + op.Account + "," + op.Id, "method": "GET"})
		rec := httptest.NewRecorder()
		w.cron.AddHandler(rec, httptest.NewRequest("POST", "/add", strings.NewReader(string(body))))
		if rec.Code != 200 {
			if strings.Contains(rec.Body.String(), Exists.Error()) {
				return "", ""
			}
			return "add-failed", fmt.Sprintf("%s: %d %s", op, rec.Code, rec.Body.String())
		}
		aid := op.Account + "," + op.Id
		w.deleted[aid] = false
		_, perr := stdtime.ParseDuration(op.Expr)
		w.once[aid] = perr == nil
		w.fired[aid] = 0
	case "del":
		rec := httptest.NewRecorder()
		w.cron.DeleteHandler(rec, httptest.NewRequest("POST", "/rem?account="+op.Account+"&id="+op.Id, strings.NewReader("")))
		if rec.Code != 200 {
			return "delete-failed", fmt.Sprintf("%s: %d %s", op, rec.Code, rec.Body.String())
		}
		w.deleted[op.Account+","+op.Id] = true
	case "delacct":
		if err := w.cron.DeleteAccount(op.Account); err != nil {
			return "deleteaccount-failed", fmt.Sprintf("%s: %v", op, err)
		}
		for _, id := range []string{"1", "2"} {
			w.deleted[op.Account+","+id] = true
		}
	case "intr":
		if w.intr != nil {
			return "", "" // no nesting
		}
		w.intr = &vcIntr{k: op.K, y: *op.Y}
		sig, msg := w.apply(*op.A)
		in := w.intr
		w.intr = nil
		if in.sig != "" {
			return in.sig, in.msg
		}
		if sig != "" {
			return sig, msg
		}
	case "intr-out":
		if w.intr != nil || w.outIntr != nil {
			return "", ""
		}
		w.outIntr = &vcIntr{y: *op.Y}
		w.outIntrAt = -1
		sig, msg := w.apply(*op.A)
		in := w.outIntr
		w.outIntr = nil
		w.outIntrAt = -1
		if in.sig != "" {
			return in.sig, in.msg
		}
		if sig != "" {
			return sig, msg
		}
		if in.done && in.y.Kind == "del" {
			// the Delete returned while work() was still busy: the job must be gone
			if _, err := w.cron.Get(in.y.Account, in.y.Id); err == nil {
				return "deleted-job-restored-by-the-firing-pass", fmt.Sprintf("%s: Delete returned, yet the job is in the table again after the pass", op)
			}
		}
	case "adv":
		w.clock.Advance(op.D)
	case "reopen":
		w.db.Close()
		w.open()
	case "work":
		// remember each job's due instant as the service itself recorded it
		for _, acct := range []string{"p", "q"} {
			for _, id := range []string{"1", "2"} {
				if j, err := w.cron.Get(acct, id); err == nil {
					if t, ok := tidTime(j.TId); ok {
						w.due[acct+","+id] = t
					}
				}
			}
		}
		before := len(w.fires)
		pass := w.cron.work(op.Id)
		if err := w.cron.DB.Update(func(tx *bolt.Tx) error {
			w.inTx = true
			defer func() { w.inTx = false }()
			return pass(tx)
		}); err != nil {
			return "work-failed", fmt.Sprintf("%s: %v", op, err)
		}
		now := w.clock.Now()
		seen := map[string]int{}
		for i, f := range w.fires[before:] {
			seen[f.aid]++
			inFlight := w.outIntrAt >= 0 && before+i < w.outIntrAt // fired before the other client's call arrived
			if w.deleted[f.aid] && !inFlight {
				return "deleted-job-fired", fmt.Sprintf("job %s fired at T0+%v after it was deleted", f.aid, now.Sub(vcT0))
			}
			if d, ok := w.due[f.aid]; ok && now.Before(d) {
				return "job-fired-before-its-due-time", fmt.Sprintf("job %s fired at T0+%v but its time-index key says it is due at T0+%v (work compares RFC3339Nano strings)", f.aid, now.Sub(vcT0), d.Sub(vcT0))
			}
			if inFlight {
				continue // belongs to the incarnation the other client's call has just ended
			}
			w.fired[f.aid]++
			if w.once[f.aid] && w.fired[f.aid] > 1 {
				return "one-shot-job-fired-more-than-once", fmt.Sprintf("one-shot job %s fired %d times", f.aid, w.fired[f.aid])
			}
		}
		for aid, n := range seen {
			if n > 1 {
				return "job-fired-twice-in-one-pass", fmt.Sprintf("job %s fired %d times in a single work() pass at T0+%v", aid, n, now.Sub(vcT0))
			}
		}
	}
	return w.invariant(op)
}

// invariant: the job table and the time index are mutually consistent.
func (w *vcWorld) invariant(op vcOp) (string, string) {
	sc := w.scan()
	for p := 0; p < 2; p++ {
		jobs, tim := sc["jobs"+strconv.Itoa(p)], sc["time"+strconv.Itoa(p)]
		perJob := map[string]int{}
		for aid, js := range jobs {
			var j Job
			if err := json.Unmarshal([]byte(js), &j); err != nil {
				return "job-record-unparsable", aid
			}
			tv, ok := tim[j.TId]
			if !ok {
				return "job-without-time-index-entry", fmt.Sprintf("after %s: job %s says its time key is %q, which is not in time%d (keys %v)", op, aid, j.TId, p, vcKeys(tim))
			}
			if tv != js {
				return "time-index-entry-differs-from-job-record", fmt.Sprintf("after %s: job %s and its time-index entry hold different JSON", op, aid)
			}
		}
		for tk, tv := range tim {
			var j Job
			if err := json.Unmarshal([]byte(tv), &j); err != nil {
				return "time-record-unparsable", tk
			}
			aid := j.Account + "," + j.Id
			perJob[aid]++
			js, ok := jobs[aid]
			if !ok {
				return "orphan-time-index-entry", fmt.Sprintf("after %s: time%d holds %q for job %s, which is not in the job table", op, p, tk, aid)
			}
			var jj Job
			json.Unmarshal([]byte(js), &jj)
			if jj.TId != tk {
				return "stale-time-index-entry", fmt.Sprintf("after %s: time%d holds %q but job %s now points at %q", op, p, tk, aid, jj.TId)
			}
		}
		for aid, n := range perJob {
			if n > 1 {
				return "more-than-one-pending-entry-per-job", fmt.Sprintf("after %s: job %s has %d entries in time%d", op, aid, n, p)
			}
		}
	}
	return "", ""
}

func vcKeys(m map[string]string) []string {
	var ks []string
	for k := range m {
		ks = append(ks, k)
	}
	sort.Strings(ks)
	return ks
}

func (w *vcWorld) key() string {
	b, _ := json.Marshal(w.scan())
	m, _ := json.Marshal([]interface{}{w.deleted, w.once, w.fired})
	h := sha256.Sum256(append(append(b, m...), []byte(w.clock.Now().String())...))
	return string(h[:16])
}

func verifCroltMain() {
	dir := os.Getenv("VERIF_WORKDIR")
	if dir == "" {
		dir = os.TempDir()
	}
	depth, _ := strconv.Atoi(os.Getenv("VERIF_CROLT_DEPTH"))
	if depth == 0 {
		depth = 4
	}
	var shard, nshards int
	fmt.Sscanf(os.Getenv("VERIF_CROLT_SHARD"), "%d/%d", &shard, &nshards)
	if nshards == 0 {
		nshards = 1
	}
	ops := vcOps()
	enc := json.NewEncoder(os.Stdout)
	var states, trans, execs int64
	seenSig := map[string]int{}
	seen := map[string]bool{}
	run := func(path []int) (w *vcWorld, sig, msg string) {
		w = vcNew(dir)
		for _, o := range path {
			trans++
			if s, m := w.apply(ops[o]); s != "" {
				return w, s, m
			}
			if s, m := w.invariant(ops[o]); s != "" { // composite ops: after the whole of it
				return w, s, m
			}
		}
		return w, "", ""
	}
	if rp := os.Getenv("VERIF_CROLT_REPLAY"); rp != "" {
		var path []int
		var txt []string
		for _, f := range strings.Split(rp, ",") {
			i, err := strconv.Atoi(f)
			if err != nil || i < 0 || i >= len(ops) {
				fmt.Fprintln(os.Stderr, "bad replay path")
				os.Exit(3)
			}
			path = append(path, i)
			txt = append(txt, ops[i].String())
		}
		w, sig, msg := run(path)
		w.close()
		if sig != "" {
			enc.Encode(map[string]interface{}{"violation": vcViolation{sig, msg, txt, path}})
		}
		enc.Encode(map[string]interface{}{"stats": map[string]interface{}{"executions": 1, "transitions": trans}})
		return
	}
	frontier := [][]int{nil}
	maxDepth := 0
	var deadline stdtime.Time
	if secs, _ := strconv.Atoi(os.Getenv("VERIF_CROLT_BUDGET_S")); secs > 0 {
		deadline = stdtime.Now().Add(stdtime.Duration(secs) * stdtime.Second)
	}
	capped := false
	completed := 0
	for d := 1; d <= depth && len(frontier) > 0 && !capped; d++ {
		var next [][]int
		for _, p := range frontier {
			if !deadline.IsZero() && stdtime.Now().After(deadline) {
				capped = true
				break
			}
			for o := range ops {
				if d == 1 && o%nshards != shard {
					continue
				}
				path := append(append([]int{}, p...), o)
				w, sig, msg := run(path)
				execs++
				if sig != "" {
					w.close()
					seenSig[sig]++
					if seenSig[sig] <= 2 {
						var txt []string
						for _, x := range path {
							txt = append(txt, ops[x].String())
						}
						enc.Encode(map[string]interface{}{"violation": vcViolation{sig, msg, txt, path}})
					}
					continue
				}
				k := w.key()
				w.close()
				if seen[k] {
					continue
				}
				seen[k] = true
				states++
				next = append(next, path)
			}
		}
		frontier = next
		maxDepth = d
		if !capped {
			completed = d
		}
	}
	enc.Encode(map[string]interface{}{"stats": map[string]interface{}{"states": states, "transitions": trans, "executions": execs, "max_depth": maxDepth, "violation_counts": seenSig, "frontier_exhausted": len(frontier) == 0,
		"capped": capped, "completed_depth": completed}})
}
