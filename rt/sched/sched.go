// Package sched is a cooperative, controlled scheduler in the CHESS tradition.
//
// Managed threads are real goroutines of which exactly ONE runs at any time.
// A thread parks at every visible operation (lock acquire, channel operation,
// WaitGroup.Wait, sleep/timer wait, spawn, exit, and accesses the rewriter
// marks as scheduling points); which enabled thread runs next — and whether a
// pending timer "lands now" — is decided by a chooser the explorer owns.
// Virtual time moves only by scheduler decision.  Happens-before vector clocks
// are maintained on REAL synchronisation only (unlock->lock, send->receive,
// close->receive, spawn, Done->Wait), never on scheduler hand-offs, so data
// races on instrumented locations are detected on every explored schedule.
//
// When no execution is active every entry point degrades to the native
// behaviour (real goroutines, real locks), so level-2 instrumented code can
// also run outside the explorer.
package sched

import (
	"fmt"
	"os"
	"runtime"
	"runtime/debug"
	"sort"
	"strings"
	"sync"
	"sync/atomic"
	stdtime "time"

	vtime "github.com/Comcast/rulio/verifrt/vtime"
)

// ---- execution state ---------------------------------------------------------

type opKind int

const (
	opPoint opKind = iota // always enabled
	opWait                // enabled iff ready()
	opSleep               // enabled iff clock >= until
	opExit
)

type Thread struct {
	ID      int
	Name    string
	wake    chan struct{}
	pending *pendingOp
	done    bool
	vc      VC
	// first-touch ordinals of sync objects (shared-object reduction)
	touch   map[interface{}]int
	ntouch  int
	spawned int
	aborted bool
	hb      uint64 // happens-before history hash of this thread
}

type pendingOp struct {
	kind   opKind
	what   string
	obj    interface{}
	ready  func() bool
	until  stdtime.Time
	branch bool // is this a branching point (object shared)?
}

// Option is one alternative at a scheduling point.
type Option struct {
	Thread int // thread to run; -1 = advance the clock to the next timer ("timer lands now")
	Cost   int // deviations this alternative costs
	Ready  bool
}

// Point is one recorded scheduling decision.
type Point struct {
	Options []Option
	Chosen  int
	Running int // thread that was running when the point was reached
	What    string
	// Key identifies the partial order of visible operations executed so far
	// (plus who is waiting for what and the clock): two prefixes that are
	// linearizations of the same partial order get the same key.
	Key uint64
}

type timer struct {
	due  stdtime.Time
	seq  int
	fire func()
	live bool
}

// Exec is one controlled execution.
type Exec struct {
	mu       sync.Mutex
	threads  []*Thread
	cur      *Thread
	clock    stdtime.Time
	timers   []*timer
	tseq     int
	Trace    []Point
	choose   func(e *Exec, opts []Option, what string) int
	steps    int
	MaxSteps int
	Horizon  stdtime.Duration
	start    stdtime.Time

	Deadlock  string // non-empty: description of the deadlock
	Panic     string // escaped panic of a managed thread
	CapHit    bool
	aborting  bool
	finished  chan struct{}
	liveCount int
	Races     []Race
	raceSeen  map[string]bool
	pmu       sync.Mutex // guards Panic
	omu       sync.Mutex // guards objs (never taken while waiting for mu)
	objs      map[interface{}]*objInfo
	Shared    map[string]bool // labels "t/k" learnt shared (input) — branching filter; nil = branch everywhere
	SharedOut map[string]bool // labels observed shared in this execution (output)
	mem       map[uintptr]*memCell
	Log       []string
	Verbose   bool
	// FreeSwitches: when the running thread blocks, every enabled thread is a
	// cost-free continuation (classic preemption bounding) instead of only the
	// lowest-id one (delay bounding, the default)
	FreeSwitches bool
	// NoEarlyTimers: do not offer "the next timer lands now" as a deviation
	NoEarlyTimers bool
	selectPick    func(n int) int
}

type objInfo struct {
	labels map[int]int // thread id -> ordinal
	// conflicting: some thread made a non-read-only access (anything but RLock)
	conflicting bool
	vc          VC // release clock (for locks / channels / waitgroups)
	// N is shim-owned state of the object for THIS execution (lock held, reader
	// count, waitgroup counter, ...).  Keeping it here rather than in the object
	// makes package-level objects start every execution fresh.
	N  [4]int
	Q  []interface{}
	hb uint64 // happens-before history hash of the object
	// Keep pins the object whose ADDRESS is the key (channels) for the whole
	// execution, so that the address cannot be reused by a later allocation.
	Keep interface{}
}

// St returns the per-execution state cell of obj.
func St(obj interface{}) *objInfo {
	e := Active()
	if e == nil {
		// a goroutine of a finished execution still unwinding: give it a scratch cell
		return &objInfo{labels: map[int]int{}}
	}
	e.omu.Lock()
	defer e.omu.Unlock()
	oi := e.objs[obj]
	if oi == nil {
		oi = &objInfo{labels: map[int]int{}}
		e.objs[obj] = oi
	}
	return oi
}

var (
	activeMu sync.Mutex
	active   *Exec
	gidMap   sync.Map // goroutine id -> *Thread  (only while an execution is active)
)

// SetChooser installs the decision procedure (index into the options).
func (e *Exec) SetChooser(f func(e *Exec, opts []Option, what string) int) { e.choose = f }

// Active returns the running execution (nil outside the explorer).
func Active() *Exec {
	if p := activePtr.Load(); p != nil {
		if e := p.(*Exec); e != nil {
			return e
		}
	}
	return nil
}

var activePtr atomic.Value // *Exec or nil-typed holder

var inSched int32

// Current returns the managed thread of the calling goroutine (nil if unmanaged).
//
// Exactly one managed thread runs at a time and scenarios start no unmanaged
// goroutines that call into instrumented code, so the caller IS the running
// thread; VERIF_SCHED_PARANOID=1 cross-checks this with the goroutine id.
func Current() *Thread {
	if atomic.LoadInt32(&inSched) == 0 {
		return nil
	}
	e := Active()
	if e == nil {
		return nil
	}
	e.mu.Lock()
	t := e.cur
	e.mu.Unlock()
	if paranoid {
		if g, ok := gidMap.Load(goid()); !ok || g.(*Thread) != t {
			panic("sched: instrumented code called from a goroutine that is not the running managed thread")
		}
	}
	return t
}

var paranoid = os.Getenv("VERIF_SCHED_PARANOID") == "1"

type abortSentinel struct{}

// Run executes body as thread 0 under the scheduler with the given chooser
// (which picks an index into the options of every branching point).
func Run(body func(), e *Exec) {
	if e.MaxSteps == 0 {
		e.MaxSteps = 200000
	}
	if e.clock.IsZero() {
		e.clock = stdtime.Date(2030, 1, 1, 0, 0, 0, 0, stdtime.UTC)
	}
	e.start = e.clock
	e.finished = make(chan struct{})
	e.raceSeen = map[string]bool{}
	e.objs = map[interface{}]*objInfo{}
	e.SharedOut = map[string]bool{}
	e.mem = map[uintptr]*memCell{}
	activeMu.Lock()
	if active != nil {
		activeMu.Unlock()
		panic("sched: nested Run")
	}
	active = e
	activePtr.Store(e)
	atomic.StoreInt32(&inSched, 1)
	activeMu.Unlock()
	installClock(e)

	t0 := e.newThread("main", nil)
	e.cur = t0
	e.liveCount = 1
	go e.threadMain(t0, body)
	<-e.finished

	removeClock()
	activeMu.Lock()
	active = nil
	activePtr.Store((*Exec)(nil))
	atomic.StoreInt32(&inSched, 0)
	activeMu.Unlock()
	// shared labels of this execution
	e.omu.Lock()
	defer e.omu.Unlock()
	for obj, oi := range e.objs {
		if len(oi.labels) >= 2 && oi.conflicting && os.Getenv("VERIF_SCHED_OBJS") != "" {
			fmt.Fprintf(os.Stderr, "SCHED-OBJ shared %T %v threads=%v\n", obj, obj, oi.labels)
		}
		if len(oi.labels) >= 2 && oi.conflicting {
			for t, k := range oi.labels {
				e.SharedOut[fmt.Sprintf("%d/%d", t, k)] = true
			}
		}
	}
}

func (e *Exec) newThread(name string, parent *Thread) *Thread {
	t := &Thread{ID: len(e.threads), Name: name, wake: make(chan struct{}, 1), touch: map[interface{}]int{}}
	if parent != nil {
		t.vc = parent.vc.copy()
		parent.hb = mix(parent.hb, 0x5a5a)
		t.hb = mix(parent.hb, uint64(parent.spawned)+3)
	}
	t.vc = t.vc.tick(t.ID)
	e.threads = append(e.threads, t)
	return t
}

func (e *Exec) threadMain(t *Thread, body func()) {
	gidMap.Store(goid(), t)
	defer gidMap.Delete(goid())
	if t.ID != 0 {
		<-t.wake // wait to be scheduled for the first time
	}
	func() {
		defer func() {
			if r := recover(); r != nil {
				if _, ok := r.(abortSentinel); ok {
					return
				}
				// (not under e.mu: the panic may have been raised while it was held)
				e.pmu.Lock()
				if e.Panic == "" {
					e.Panic = fmt.Sprintf("thread %d (%s): panic: %v\n%s", t.ID, t.Name, r, trimStack(debug.Stack()))
				}
				e.pmu.Unlock()
			}
		}()
		if t.aborted {
			return
		}
		body()
	}()
	e.exit(t)
}

func trimStack(b []byte) string {
	lines := strings.Split(string(b), "\n")
	var keep []string
	for _, l := range lines {
		if strings.Contains(l, "verifrt/sched") || strings.Contains(l, "runtime/") {
			continue
		}
		keep = append(keep, l)
		if len(keep) > 24 {
			break
		}
	}
	return strings.Join(keep, "\n")
}

// exit: the thread is done; hand control to someone else or finish.
func (e *Exec) exit(t *Thread) {
	e.mu.Lock()
	t.done = true
	t.pending = nil
	e.liveCount--
	if e.liveCount == 0 {
		e.mu.Unlock()
		close(e.finished)
		return
	}
	if e.aborting {
		e.mu.Unlock()
		e.abortNext()
		return
	}
	e.pmu.Lock()
	panicked := e.Panic != ""
	e.pmu.Unlock()
	if panicked {
		// an escaped panic ends the execution (the real process would have died)
		e.mu.Unlock()
		e.abort()
		return
	}
	next := e.pickLocked(t, "exit")
	e.mu.Unlock()
	if next == nil {
		return // deadlock/cap handled inside pickLocked via abort
	}
	next.wake <- struct{}{}
}

// abort wakes every parked thread with the abort flag so that it unwinds.
func (e *Exec) abort() {
	e.mu.Lock()
	e.aborting = true
	e.mu.Unlock()
	e.abortNext()
}

func (e *Exec) abortNext() {
	e.mu.Lock()
	var victim *Thread
	for _, t := range e.threads {
		if !t.done && !t.aborted {
			victim = t
			break
		}
	}
	if victim != nil {
		victim.aborted = true
	}
	e.mu.Unlock()
	if victim != nil {
		victim.wake <- struct{}{}
	}
}

// Yield parks the calling thread on op and returns when the scheduler has
// chosen it (its operation is then enabled).
func (e *Exec) yield(t *Thread, op *pendingOp) {
	e.mu.Lock()
	if e.aborting || t.aborted {
		e.mu.Unlock()
		panic(abortSentinel{})
	}
	e.steps++
	if e.steps > e.MaxSteps || (e.Horizon > 0 && e.clock.Sub(e.start) > e.Horizon) {
		e.CapHit = true
		e.mu.Unlock()
		e.abortFrom(t)
	}
	t.pending = op
	next := e.pickLocked(t, op.what)
	if next == t {
		t.pending = nil
		ab := t.aborted
		e.mu.Unlock()
		if ab {
			panic(abortSentinel{})
		}
		return
	}
	e.mu.Unlock()
	if next != nil {
		next.wake <- struct{}{}
	}
	<-t.wake
	e.mu.Lock()
	ab := e.aborting || t.aborted
	t.pending = nil
	e.cur = t
	e.mu.Unlock()
	if ab {
		panic(abortSentinel{})
	}
}

func (e *Exec) abortFrom(t *Thread) {
	e.mu.Lock()
	e.aborting = true
	t.aborted = true
	e.mu.Unlock()
	panic(abortSentinel{})
}

func (e *Exec) enabled(t *Thread) bool {
	if t.done || t.pending == nil {
		return false
	}
	switch t.pending.kind {
	case opPoint:
		return true
	case opWait:
		return t.pending.ready()
	case opSleep:
		return !e.clock.Before(t.pending.until)
	}
	return false
}

// pickLocked decides who runs next.  Called with e.mu held by thread `from`
// (which has set its pending op, or is exiting).
func (e *Exec) pickLocked(from *Thread, what string) *Thread {
	for {
		e.fireDueLocked()
		var en []*Thread
		for _, t := range e.threads {
			if e.enabled(t) {
				en = append(en, t)
			}
		}
		if len(en) == 0 {
			// advance virtual time to the next timer / sleeper
			if !e.advanceLocked() {
				// deadlock (unless we merely ran past the horizon)
				if e.Deadlock == "" && !e.CapHit {
					var sb strings.Builder
					for _, t := range e.threads {
						if !t.done && t.pending != nil {
							fmt.Fprintf(&sb, "thread %d (%s) blocked on %s; ", t.ID, t.Name, t.pending.what)
						}
					}
					e.Deadlock = sb.String()
				}
				e.aborting = true
				// wake someone to start the unwinding
				for _, t := range e.threads {
					if !t.done && !t.aborted && t != from {
						t.aborted = true
						return t
					}
				}
				if !from.done {
					from.aborted = true
					// from itself must unwind: it will see aborting in yield
					return from
				}
				return nil
			}
			continue
		}
		// canonical order: the running thread first if still enabled, then ascending ids
		sort.Slice(en, func(i, j int) bool {
			if (en[i] == from) != (en[j] == from) {
				return en[i] == from
			}
			return en[i].ID < en[j].ID
		})
		fromEnabled := len(en) > 0 && en[0] == from
		branching := from.pending == nil || from.pending.branch || !fromEnabled
		if !branching {
			e.cur = from
			return from
		}
		var opts []Option
		for i, t := range en {
			cost := 0
			if fromEnabled && t != from {
				cost = 1 // preempting a thread that could have continued
			}
			if !fromEnabled && i > 0 && !e.FreeSwitches {
				// the running thread blocked or exited: the default is the lowest-id
				// enabled thread; picking another one is a deviation too (delay
				// bounding), which keeps the schedule count polynomial in the bound
				cost = 1
			}
			opts = append(opts, Option{Thread: t.ID, Cost: cost, Ready: true})
		}
		if !e.NoEarlyTimers && e.hasTimerLocked() && len(en) > 0 {
			opts = append(opts, Option{Thread: -1, Cost: 1, Ready: true}) // the next timer lands now
		}
		choice := 0
		var key uint64
		if len(opts) > 1 {
			key = e.stateKeyLocked(from, what)
			choice = e.choose(e, opts, what)
			if choice < 0 || choice >= len(opts) {
				panic(fmt.Sprintf("sched: chooser returned %d of %d options", choice, len(opts)))
			}
			e.Trace = append(e.Trace, Point{Options: opts, Chosen: choice, Running: from.ID, What: what, Key: key})
		}
		if opts[choice].Thread == -1 {
			e.advanceToTimerLocked()
			continue
		}
		next := e.threads[opts[choice].Thread]
		e.cur = next
		return next
	}
}

// ---- virtual time --------------------------------------------------------------

// hasTimerLocked: is there a pending TIMER (not a sleeper) that could land early?
// Sleepers are not offered: waking a sleeping thread early while another thread
// is runnable would starve that thread across a passage of time, which no
// multi-core execution does.
func (e *Exec) hasTimerLocked() bool {
	for _, tm := range e.timers {
		if tm.live {
			return true
		}
	}
	return false
}

// advanceToTimerLocked moves the clock to the earliest pending timer and fires it.
func (e *Exec) advanceToTimerLocked() {
	var next stdtime.Time
	have := false
	for _, tm := range e.timers {
		if tm.live && (!have || tm.due.Before(next)) {
			next, have = tm.due, true
		}
	}
	if !have {
		return
	}
	if next.After(e.clock) {
		e.clock = next
	}
	e.fireDueLocked()
}

// advanceLocked moves the clock to the earliest pending timer or sleeper.
func (e *Exec) advanceLocked() bool {
	var next stdtime.Time
	have := false
	for _, tm := range e.timers {
		if tm.live && (!have || tm.due.Before(next)) {
			next, have = tm.due, true
		}
	}
	for _, t := range e.threads {
		if !t.done && t.pending != nil && t.pending.kind == opSleep {
			if !have || t.pending.until.Before(next) {
				next, have = t.pending.until, true
			}
		}
	}
	if !have {
		return false
	}
	if next.After(e.clock) {
		e.clock = next
	}
	if e.Horizon > 0 && e.clock.Sub(e.start) > e.Horizon {
		// nothing left but timers beyond the horizon
		e.CapHit = true
		return false
	}
	e.fireDueLocked()
	return true
}

func (e *Exec) fireDueLocked() {
	for {
		var pick *timer
		for _, tm := range e.timers {
			if tm.live && !tm.due.After(e.clock) {
				if pick == nil || tm.due.Before(pick.due) || (tm.due.Equal(pick.due) && tm.seq < pick.seq) {
					pick = tm
				}
			}
		}
		if pick == nil {
			break
		}
		pick.live = false
		f := pick.fire
		e.mu.Unlock()
		f()
		e.mu.Lock()
	}
	live := e.timers[:0]
	for _, tm := range e.timers {
		if tm.live {
			live = append(live, tm)
		}
	}
	e.timers = live
}

// Clock returns the virtual time.
func (e *Exec) Clock() stdtime.Time {
	e.mu.Lock()
	defer e.mu.Unlock()
	return e.clock
}

// ---- public API for shims ------------------------------------------------------

// Point is an always-enabled scheduling point on obj.
func PointOn(obj interface{}, what string) {
	t := Current()
	if t == nil {
		return
	}
	e := Active()
	if !e.touchObj(t, obj) {
		return // not a branching point: the running thread simply continues
	}
	e.yield(t, &pendingOp{kind: opPoint, what: what, obj: obj, branch: true})
}

// PointOnRW is PointOn with a read/write distinction (reads of a location that
// nobody writes concurrently are not branching points).
func PointOnRW(obj interface{}, what string, write bool) {
	t := Current()
	if t == nil {
		return
	}
	e := Active()
	if !e.touchObjRW(t, obj, write) {
		return
	}
	e.yield(t, &pendingOp{kind: opPoint, what: what, obj: obj, branch: true})
}

// WaitUntil parks until ready() holds.
func WaitUntil(obj interface{}, what string, ready func() bool) {
	t := Current()
	if t == nil {
		panic("sched.WaitUntil outside a managed thread")
	}
	e := Active()
	br := e.touchObj(t, obj)
	if !br && ready() {
		return // enabled and not a branching point: continue without a scheduling decision
	}
	e.yield(t, &pendingOp{kind: opWait, what: what, obj: obj, ready: ready, branch: br})
}

// WaitUntilRead is WaitUntil for a read-only acquisition (RWMutex.RLock).
func WaitUntilRead(obj interface{}, what string, ready func() bool) {
	t := Current()
	if t == nil {
		panic("sched.WaitUntilRead outside a managed thread")
	}
	e := Active()
	br := e.touchObjRW(t, obj, false)
	if !br && ready() {
		return
	}
	e.yield(t, &pendingOp{kind: opWait, what: what, obj: obj, ready: ready, branch: br})
}

// WaitUntilMulti is WaitUntil for an operation that involves several objects
// (select): it is a branching point if any of them is shared.
func WaitUntilMulti(objs []interface{}, what string, ready func() bool) {
	t := Current()
	if t == nil {
		panic("sched.WaitUntilMulti outside a managed thread")
	}
	e := Active()
	branch := len(objs) == 0
	for _, o := range objs {
		if e.touchObj(t, o) {
			branch = true
		}
	}
	if !branch && ready() {
		return
	}
	e.yield(t, &pendingOp{kind: opWait, what: what, ready: ready, branch: branch})
}

// touchObj records that t touches obj and reports whether the access is a
// branching point under the shared-object reduction.
func (e *Exec) touchObj(t *Thread, obj interface{}) bool { return e.touchObjRW(t, obj, true) }

// touchObjRW: write=false marks an access that cannot conflict with other
// read-only accesses (RWMutex.RLock).  An object only ever accessed that way
// is never a branching point: such accesses commute.
func (e *Exec) touchObjRW(t *Thread, obj interface{}, write bool) bool {
	if obj == nil {
		return true
	}
	e.mu.Lock()
	solo := e.liveCount <= 1
	e.mu.Unlock()
	e.omu.Lock()
	defer e.omu.Unlock()
	// the ordinal (first-touch order within the thread) is assigned on EVERY
	// access, so that it depends only on the thread's own control flow
	k, seen := t.touch[obj]
	if !seen {
		k = t.ntouch
		t.ntouch++
		t.touch[obj] = k
	}
	if solo {
		// single-threaded phase (set-up before the clients are spawned, checks
		// after they were joined): ordered with everything else by spawn/join,
		// so it neither branches nor makes an object "shared"
		return false
	}
	oi := e.objs[obj]
	if oi == nil {
		oi = &objInfo{labels: map[int]int{}}
		e.objs[obj] = oi
	}
	if write {
		oi.conflicting = true
	}
	oi.labels[t.ID] = k
	if e.Shared == nil {
		return true
	}
	return e.Shared[fmt.Sprintf("%d/%d", t.ID, k)]
}

// Go spawns a managed thread (native goroutine outside the explorer).
func Go(f func()) {
	t := Current()
	if t == nil {
		go f()
		return
	}
	e := Active()
	e.mu.Lock()
	t.spawned++
	nt := e.newThread(fmt.Sprintf("%s.%d", t.Name, t.spawned), t)
	t.vc = t.vc.tick(t.ID)
	e.liveCount++
	e.mu.Unlock()
	go e.threadMain(nt, f)
	// the new thread is parked on its first wake; make it schedulable
	e.mu.Lock()
	nt.pending = &pendingOp{kind: opPoint, what: "start", branch: true}
	e.mu.Unlock()
	e.yield(t, &pendingOp{kind: opPoint, what: "go", branch: true})
}

// Sleep in virtual time.
func Sleep(d stdtime.Duration) {
	t := Current()
	if t == nil {
		stdtime.Sleep(d)
		return
	}
	e := Active()
	e.mu.Lock()
	until := e.clock.Add(d)
	e.mu.Unlock()
	e.yield(t, &pendingOp{kind: opSleep, what: fmt.Sprintf("sleep(%v)", d), until: until, branch: true})
}

// ---- clock backend for verifrt/vtime -----------------------------------------

type clockBackend struct{ e *Exec }

func (c clockBackend) Now() stdtime.Time        { return c.e.Clock() }
func (c clockBackend) Sleep(d stdtime.Duration) { Sleep(d) }
func (c clockBackend) StartTimer(d stdtime.Duration, fire func()) interface{} {
	e := c.e
	e.mu.Lock()
	defer e.mu.Unlock()
	e.tseq++
	tm := &timer{due: e.clock.Add(d), seq: e.tseq, fire: fire, live: true}
	e.timers = append(e.timers, tm)
	return tm
}
func (c clockBackend) StopTimer(h interface{}) bool {
	tm, ok := h.(*timer)
	if !ok || tm == nil {
		return false
	}
	c.e.mu.Lock()
	defer c.e.mu.Unlock()
	was := tm.live
	tm.live = false
	return was
}

func installClock(e *Exec) {
	vtime.SetBackend(clockBackend{e})
	vtime.SpawnHook = Spawn
}

func removeClock() {
	vtime.SetBackend(nil)
	vtime.SpawnHook = nil
}

// Spawn creates a managed thread WITHOUT yielding (used by timer callbacks,
// which run inside the scheduler's decision procedure).
func Spawn(f func()) {
	e := Active()
	if e == nil {
		go f()
		return
	}
	e.mu.Lock()
	parent := e.cur
	nt := e.newThread(fmt.Sprintf("timer.%d", len(e.threads)), parent)
	e.liveCount++
	nt.pending = &pendingOp{kind: opPoint, what: "start", branch: true}
	e.mu.Unlock()
	go e.threadMain(nt, f)
}

// ChoiceN lets a shim ask the explorer for a non-thread decision (which ready
// select case, ...): option 0 is the default, every other option costs one
// deviation.
func ChoiceN(n int, what string) int {
	e := Active()
	if e == nil || n <= 1 || Current() == nil {
		return 0
	}
	e.mu.Lock()
	defer e.mu.Unlock()
	opts := make([]Option, n)
	for i := range opts {
		opts[i] = Option{Thread: -2 - i, Ready: true}
		if i > 0 {
			opts[i].Cost = 1
		}
	}
	c := e.choose(e, opts, what)
	if c < 0 || c >= n {
		panic("sched: bad ChoiceN answer")
	}
	e.Trace = append(e.Trace, Point{Options: opts, Chosen: c, Running: e.cur.ID, What: what})
	return c
}

// ---- happens-before hashing (state caching) -----------------------------------

func mix(a, b uint64) uint64 {
	x := a ^ (b + 0x9e3779b97f4a7c15 + (a << 6) + (a >> 2))
	x ^= x >> 33
	x *= 0xff51afd7ed558ccd
	x ^= x >> 33
	return x
}

func strHash(s string) uint64 {
	var h uint64 = 14695981039346656037
	for i := 0; i < len(s); i++ {
		h ^= uint64(s[i])
		h *= 1099511628211
	}
	return h
}

// Did records that the calling thread completed a visible operation on obj.
// write=false marks operations that commute with each other on the same
// object (read-lock acquisition, map reads): they depend on the object's
// history but do not extend it.
func Did(obj interface{}, what string, write bool) {
	t := Current()
	if t == nil {
		return
	}
	e := Active()
	e.omu.Lock()
	oi := e.objs[obj]
	if oi == nil {
		oi = &objInfo{labels: map[int]int{}}
		e.objs[obj] = oi
	}
	if oi.hb == 0 {
		oi.hb = 1
	}
	h := mix(mix(t.hb, oi.hb), strHash(what))
	t.hb = h
	if write {
		oi.hb = mix(oi.hb, h)
	}
	e.omu.Unlock()
}

// stateKeyLocked hashes the global state as seen at a scheduling point.
func (e *Exec) stateKeyLocked(from *Thread, what string) uint64 {
	k := uint64(len(e.threads))
	for _, t := range e.threads {
		th := t.hb
		if t.done {
			th = mix(th, 0xdead)
		} else if t.pending != nil {
			th = mix(th, strHash(t.pending.what))
			if t.pending.kind == opSleep {
				th = mix(th, uint64(t.pending.until.UnixNano()))
			}
		}
		k = mix(k, mix(uint64(t.ID)+1, th))
	}
	k = mix(k, uint64(e.clock.UnixNano()))
	for _, tm := range e.timers {
		if tm.live {
			k = mix(k, uint64(tm.due.UnixNano()))
		}
	}
	k = mix(k, uint64(from.ID)+77)
	return k
}

// ---- vector clocks and races ---------------------------------------------------

type VC []int

func (v VC) copy() VC { return append(VC(nil), v...) }
func (v VC) tick(i int) VC {
	for len(v) <= i {
		v = append(v, 0)
	}
	v[i]++
	return v
}
func (v VC) join(o VC) VC {
	for len(v) < len(o) {
		v = append(v, 0)
	}
	for i, x := range o {
		if x > v[i] {
			v[i] = x
		}
	}
	return v
}

// leq: v happens-before-or-equals o
func (v VC) leq(o VC) bool {
	for i, x := range v {
		if x == 0 {
			continue
		}
		if i >= len(o) || x > o[i] {
			return false
		}
	}
	return true
}

// Release: the calling thread publishes its clock on obj (unlock, send, close, Done).
func Release(obj interface{}) {
	t := Current()
	if t == nil {
		return
	}
	e := Active()
	e.omu.Lock()
	oi := e.objs[obj]
	if oi == nil {
		oi = &objInfo{labels: map[int]int{}}
		e.objs[obj] = oi
	}
	oi.vc = oi.vc.join(t.vc)
	t.vc = t.vc.tick(t.ID)
	e.omu.Unlock()
}

// Acquire: the calling thread learns obj's clock (lock, receive, Wait).
func Acquire(obj interface{}) {
	t := Current()
	if t == nil {
		return
	}
	e := Active()
	e.omu.Lock()
	if oi := e.objs[obj]; oi != nil {
		t.vc = t.vc.join(oi.vc)
	}
	e.omu.Unlock()
}

type Race struct {
	Loc   string
	SiteA string
	SiteB string
	Kinds string
}

type memCell struct {
	keep      interface{} // keeps the object alive so its address is not reused within the execution
	lastW     VC
	lastWSite string
	lastWT    int
	reads     map[int]VC
	readSite  map[int]string
}

// Access records a read or write of a shared memory location (identified by
// addr) at site; unordered conflicting accesses are reported as a race.
func Access(addr uintptr, loc string, site string, write bool, keep interface{}) {
	t := Current()
	if t == nil {
		return
	}
	e := Active()
	e.mu.Lock()
	defer e.mu.Unlock()
	c := e.mem[addr]
	if c == nil {
		c = &memCell{reads: map[int]VC{}, readSite: map[int]string{}, lastWT: -1, keep: keep}
		e.mem[addr] = c
	}
	report := func(otherSite, kinds string) {
		a, b := otherSite, site
		if b < a {
			a, b = b, a
		}
		key := loc + "|" + a + "|" + b
		if !e.raceSeen[key] {
			e.raceSeen[key] = true
			e.Races = append(e.Races, Race{Loc: loc, SiteA: a, SiteB: b, Kinds: kinds})
		}
	}
	if c.lastWT >= 0 && c.lastWT != t.ID && !c.lastW.leq(t.vc) {
		if write {
			report(c.lastWSite, "write/write")
		} else {
			report(c.lastWSite, "write/read")
		}
	}
	if write {
		for rt, rvc := range c.reads {
			if rt != t.ID && !rvc.leq(t.vc) {
				report(c.readSite[rt], "read/write")
			}
		}
		c.lastW = t.vc.copy()
		c.lastWSite = site
		c.lastWT = t.ID
		c.reads = map[int]VC{}
		c.readSite = map[int]string{}
	} else {
		c.reads[t.ID] = t.vc.copy()
		c.readSite[t.ID] = site
	}
}

// Logf records a line in the execution log (debugging aid).
func Logf(f string, a ...interface{}) {
	if e := Active(); e != nil && e.Verbose {
		fmt.Fprintf(os.Stderr, f+"\n", a...)
	}
}

// goid returns the current goroutine's id (parsed from the stack header).
func goid() uint64 {
	var buf [64]byte
	n := runtime.Stack(buf[:], false)
	// "goroutine 123 [running]:"
	var id uint64
	for _, c := range buf[10:n] {
		if c < '0' || c > '9' {
			break
		}
		id = id*10 + uint64(c-'0')
	}
	return id
}
