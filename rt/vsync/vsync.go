// Package sync (import path github.com/Comcast/rulio/verifrt/vsync) replaces
// the standard "sync" in level-2 instrumented rulio packages.  Outside a
// controlled execution every type behaves exactly like its standard
// counterpart; inside one, blocking operations become scheduling points of the
// cooperative scheduler and release/acquire pairs feed the happens-before
// clocks.  RWMutex models Go's writer preference (a waiting writer blocks new
// readers), so recursive read-locking deadlocks exactly where it does in Go.
package sync

import (
	stdsync "sync"

	"github.com/Comcast/rulio/verifrt/sched"
)

type (
	Locker = stdsync.Locker
	Map    = stdsync.Map
	Pool   = stdsync.Pool
	Cond   = stdsync.Cond
)

func NewCond(l Locker) *Cond { return stdsync.NewCond(l) }

// ---- Mutex ---------------------------------------------------------------------

type Mutex struct {
	real stdsync.Mutex
}

func (m *Mutex) Lock() {
	if sched.Current() == nil {
		m.real.Lock()
		return
	}
	st := sched.St(m)
	sched.WaitUntil(m, "Mutex.Lock", func() bool { return st.N[0] == 0 })
	st.N[0] = 1
	sched.Acquire(m)
	sched.Did(m, "Lock", true)
}

func (m *Mutex) TryLock() bool {
	if sched.Current() == nil {
		return m.real.TryLock()
	}
	st := sched.St(m)
	sched.PointOn(m, "Mutex.TryLock")
	if st.N[0] != 0 {
		return false
	}
	st.N[0] = 1
	sched.Acquire(m)
	return true
}

func (m *Mutex) Unlock() {
	if sched.Current() == nil {
		m.real.Unlock()
		return
	}
	st := sched.St(m)
	if st.N[0] == 0 {
		panic("sync: unlock of unlocked mutex (fatal in Go)")
	}
	sched.Release(m)
	st.N[0] = 0
	sched.Did(m, "Unlock", true)
}

// ---- RWMutex -------------------------------------------------------------------

type RWMutex struct {
	real stdsync.RWMutex
	rclk byte // address used as the readers' release clock
}

// N[0] writer held, N[1] readers, N[2] writers waiting

func (m *RWMutex) RLock() {
	if sched.Current() == nil {
		m.real.RLock()
		return
	}
	st := sched.St(m)
	sched.WaitUntilRead(m, "RWMutex.RLock", func() bool { return st.N[0] == 0 && st.N[2] == 0 })
	st.N[1]++
	sched.Acquire(m) // writers' releases only
	sched.Did(m, "RLock", false)
	sched.Did(&m.rclk, "r+", true) // the reader count is state a writer depends on
}

func (m *RWMutex) RUnlock() {
	if sched.Current() == nil {
		m.real.RUnlock()
		return
	}
	st := sched.St(m)
	if st.N[1] == 0 {
		panic("sync: RUnlock of unlocked RWMutex (fatal in Go)")
	}
	sched.Release(&m.rclk)
	st.N[1]--
	sched.Did(&m.rclk, "r-", true)
}

func (m *RWMutex) Lock() {
	if sched.Current() == nil {
		m.real.Lock()
		return
	}
	st := sched.St(m)
	// announce: from here on new readers are held back
	sched.PointOn(m, "RWMutex.Lock(announce)")
	st.N[2]++
	sched.Did(m, "WAnnounce", true)
	sched.WaitUntil(m, "RWMutex.Lock", func() bool { return st.N[0] == 0 && st.N[1] == 0 })
	st.N[2]--
	st.N[0] = 1
	sched.Acquire(m)
	sched.Acquire(&m.rclk)
	sched.Did(m, "WLock", true)
	sched.Did(&m.rclk, "w", true)
}

func (m *RWMutex) Unlock() {
	if sched.Current() == nil {
		m.real.Unlock()
		return
	}
	st := sched.St(m)
	if st.N[0] == 0 {
		panic("sync: Unlock of unlocked RWMutex (fatal in Go)")
	}
	sched.Release(m)
	st.N[0] = 0
	sched.Did(m, "WUnlock", true)
}

func (m *RWMutex) RLocker() Locker { return (*rlocker)(m) }

type rlocker RWMutex

func (r *rlocker) Lock()   { (*RWMutex)(r).RLock() }
func (r *rlocker) Unlock() { (*RWMutex)(r).RUnlock() }

// ---- WaitGroup -----------------------------------------------------------------

type WaitGroup struct {
	real stdsync.WaitGroup
}

func (wg *WaitGroup) Add(n int) {
	if sched.Current() == nil {
		wg.real.Add(n)
		return
	}
	st := sched.St(wg)
	st.N[0] += n
	if st.N[0] < 0 {
		panic("sync: negative WaitGroup counter")
	}
	if n < 0 {
		sched.Release(wg)
	}
	sched.Did(wg, "Add", true)
}

func (wg *WaitGroup) Done() { wg.Add(-1) }

func (wg *WaitGroup) Wait() {
	if sched.Current() == nil {
		wg.real.Wait()
		return
	}
	st := sched.St(wg)
	sched.WaitUntil(wg, "WaitGroup.Wait", func() bool { return st.N[0] == 0 })
	sched.Acquire(wg)
	sched.Did(wg, "Wait", false)
}

// ---- Once ----------------------------------------------------------------------

type Once struct {
	real stdsync.Once
}

func (o *Once) Do(f func()) {
	if sched.Current() == nil {
		o.real.Do(f)
		return
	}
	st := sched.St(o)
	switch st.N[0] {
	case 2:
		sched.Acquire(o)
		return
	case 1:
		sched.WaitUntil(o, "Once.Do", func() bool { return st.N[0] == 2 })
		sched.Acquire(o)
		return
	}
	st.N[0] = 1
	defer func() {
		sched.Release(o)
		st.N[0] = 2
	}()
	f()
}
