// Package time (import path github.com/Comcast/rulio/verifrt/vtime) is the
// verification shim that instrumented rulio packages import instead of the
// standard "time".  Everything that only computes with instants and durations
// is re-exported unchanged; everything that READS the clock or WAITS on it
// (Now, Since, Until, Sleep, After, AfterFunc, NewTimer, Tick, NewTicker,
// Timer, Ticker) is routed through a clock the harness owns (see clock.go).
package time

import stdtime "time"

type (
	Duration   = stdtime.Duration
	Time       = stdtime.Time
	Month      = stdtime.Month
	Weekday    = stdtime.Weekday
	Location   = stdtime.Location
	ParseError = stdtime.ParseError
)

const (
	Nanosecond  = stdtime.Nanosecond
	Microsecond = stdtime.Microsecond
	Millisecond = stdtime.Millisecond
	Second      = stdtime.Second
	Minute      = stdtime.Minute
	Hour        = stdtime.Hour

	Layout      = stdtime.Layout
	ANSIC       = stdtime.ANSIC
	UnixDate    = stdtime.UnixDate
	RubyDate    = stdtime.RubyDate
	RFC822      = stdtime.RFC822
	RFC822Z     = stdtime.RFC822Z
	RFC850      = stdtime.RFC850
	RFC1123     = stdtime.RFC1123
	RFC1123Z    = stdtime.RFC1123Z
	RFC3339     = stdtime.RFC3339
	RFC3339Nano = stdtime.RFC3339Nano
	Kitchen     = stdtime.Kitchen
	Stamp       = stdtime.Stamp
	StampMilli  = stdtime.StampMilli
	StampMicro  = stdtime.StampMicro
	StampNano   = stdtime.StampNano
	DateTime    = stdtime.DateTime
	DateOnly    = stdtime.DateOnly
	TimeOnly    = stdtime.TimeOnly

	January   = stdtime.January
	February  = stdtime.February
	March     = stdtime.March
	April     = stdtime.April
	May       = stdtime.May
	June      = stdtime.June
	July      = stdtime.July
	August    = stdtime.August
	September = stdtime.September
	October   = stdtime.October
	November  = stdtime.November
	December  = stdtime.December

	Sunday    = stdtime.Sunday
	Monday    = stdtime.Monday
	Tuesday   = stdtime.Tuesday
	Wednesday = stdtime.Wednesday
	Thursday  = stdtime.Thursday
	Friday    = stdtime.Friday
	Saturday  = stdtime.Saturday
)

var (
	UTC   = stdtime.UTC
	Local = stdtime.Local
)

func Date(year int, month Month, day, hour, min, sec, nsec int, loc *Location) Time {
	return stdtime.Date(year, month, day, hour, min, sec, nsec, loc)
}
func Unix(sec int64, nsec int64) Time          { return stdtime.Unix(sec, nsec) }
func UnixMilli(msec int64) Time                { return stdtime.UnixMilli(msec) }
func UnixMicro(usec int64) Time                { return stdtime.UnixMicro(usec) }
func Parse(layout, value string) (Time, error) { return stdtime.Parse(layout, value) }
func ParseInLocation(layout, value string, loc *Location) (Time, error) {
	return stdtime.ParseInLocation(layout, value, loc)
}
func ParseDuration(s string) (Duration, error)    { return stdtime.ParseDuration(s) }
func FixedZone(name string, offset int) *Location { return stdtime.FixedZone(name, offset) }
func LoadLocation(name string) (*Location, error) { return stdtime.LoadLocation(name) }
func LoadLocationFromTZData(name string, data []byte) (*Location, error) {
	return stdtime.LoadLocationFromTZData(name, data)
}
