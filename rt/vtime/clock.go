package time

import (
	"sort"
	"sync"
	stdtime "time"
)

// Backend is whoever owns the clock.  nil means the real clock (the shim is
// then a transparent pass-through, so instrumented code behaves like the
// original until a harness opts in).
//
// Two implementations exist: Frozen (below; sequential engines: time moves only
// when the harness says so, timers fire inside Advance) and the cooperative
// scheduler in verifrt/sched (time is a participant of the schedule search).
type Backend interface {
	Now() stdtime.Time
	Sleep(d Duration)
	// StartTimer arranges for fire to be called once, d from now.
	StartTimer(d Duration, fire func()) interface{}
	// StopTimer cancels; reports whether the timer was still pending.
	StopTimer(h interface{}) bool
}

var (
	bmu     sync.Mutex
	backend Backend
)

// SetBackend installs (or with nil removes) the clock owner.
func SetBackend(b Backend) {
	bmu.Lock()
	backend = b
	bmu.Unlock()
}

func be() Backend {
	bmu.Lock()
	b := backend
	bmu.Unlock()
	return b
}

func Now() Time {
	if b := be(); b != nil {
		return b.Now()
	}
	return stdtime.Now()
}

func Since(t Time) Duration { return Now().Sub(t) }
func Until(t Time) Duration { return t.Sub(Now()) }

func Sleep(d Duration) {
	if b := be(); b != nil {
		b.Sleep(d)
		return
	}
	stdtime.Sleep(d)
}

// Timer mirrors time.Timer.
type Timer struct {
	C    <-chan Time
	c    chan Time
	f    func()
	real *stdtime.Timer
	b    Backend
	h    interface{}
}

// SpawnHook, when set (by the scheduler), runs AfterFunc callbacks in their own
// managed thread; otherwise they run on the goroutine that moved the clock.
var SpawnHook func(f func())

func (t *Timer) fire() {
	if t.f != nil {
		if h := SpawnHook; h != nil {
			h(t.f)
		} else {
			t.f()
		}
		return
	}
	select {
	case t.c <- Now():
	default:
	}
}

func NewTimer(d Duration) *Timer {
	b := be()
	if b == nil {
		rt := stdtime.NewTimer(d)
		return &Timer{C: rt.C, real: rt}
	}
	c := make(chan Time, 1)
	t := &Timer{C: c, c: c, b: b}
	t.h = b.StartTimer(d, t.fire)
	return t
}

func AfterFunc(d Duration, f func()) *Timer {
	b := be()
	if b == nil {
		return &Timer{real: stdtime.AfterFunc(d, f)}
	}
	t := &Timer{f: f, b: b}
	t.h = b.StartTimer(d, t.fire)
	return t
}

func After(d Duration) <-chan Time { return NewTimer(d).C }

func (t *Timer) Stop() bool {
	if t.real != nil {
		return t.real.Stop()
	}
	return t.b.StopTimer(t.h)
}

func (t *Timer) Reset(d Duration) bool {
	if t.real != nil {
		return t.real.Reset(d)
	}
	was := t.b.StopTimer(t.h)
	t.h = t.b.StartTimer(d, t.fire)
	return was
}

// Ticker mirrors time.Ticker.
type Ticker struct {
	C       <-chan Time
	c       chan Time
	real    *stdtime.Ticker
	b       Backend
	h       interface{}
	d       Duration
	mu      sync.Mutex
	stopped bool
}

func NewTicker(d Duration) *Ticker {
	b := be()
	if b == nil {
		rt := stdtime.NewTicker(d)
		return &Ticker{C: rt.C, real: rt}
	}
	if d <= 0 {
		panic("non-positive interval for NewTicker")
	}
	c := make(chan Time, 1)
	t := &Ticker{C: c, c: c, b: b, d: d}
	t.h = b.StartTimer(d, t.tick)
	return t
}

func (t *Ticker) tick() {
	t.mu.Lock()
	stopped := t.stopped
	t.mu.Unlock()
	if stopped {
		return
	}
	select {
	case t.c <- Now():
	default:
	}
	t.mu.Lock()
	if !t.stopped {
		t.h = t.b.StartTimer(t.d, t.tick)
	}
	t.mu.Unlock()
}

func (t *Ticker) Stop() {
	if t.real != nil {
		t.real.Stop()
		return
	}
	t.mu.Lock()
	t.stopped = true
	h := t.h
	t.mu.Unlock()
	t.b.StopTimer(h)
}

func (t *Ticker) Reset(d Duration) {
	if t.real != nil {
		t.real.Reset(d)
		return
	}
	t.mu.Lock()
	h := t.h
	t.d = d
	t.mu.Unlock()
	t.b.StopTimer(h)
	t.mu.Lock()
	t.h = t.b.StartTimer(d, t.tick)
	t.mu.Unlock()
}

func Tick(d Duration) <-chan Time {
	if d <= 0 {
		return nil
	}
	return NewTicker(d).C
}

// ---------------------------------------------------------------------------

// Frozen is the sequential engines' clock: Now is whatever the harness set;
// Sleep advances it; timers fire, in due order, inside Advance/Set/Sleep on the
// calling goroutine.
type Frozen struct {
	mu     sync.Mutex
	now    stdtime.Time
	seq    int
	timers []*ftimer
}

type ftimer struct {
	due  stdtime.Time
	seq  int
	fire func()
	live bool
}

func NewFrozen(t stdtime.Time) *Frozen { return &Frozen{now: t} }

func (f *Frozen) Now() stdtime.Time {
	f.mu.Lock()
	defer f.mu.Unlock()
	return f.now
}

func (f *Frozen) Sleep(d Duration) { f.Advance(d) }

func (f *Frozen) StartTimer(d Duration, fire func()) interface{} {
	f.mu.Lock()
	defer f.mu.Unlock()
	f.seq++
	t := &ftimer{due: f.now.Add(d), seq: f.seq, fire: fire, live: true}
	f.timers = append(f.timers, t)
	return t
}

func (f *Frozen) StopTimer(h interface{}) bool {
	t, ok := h.(*ftimer)
	if !ok || t == nil {
		return false
	}
	f.mu.Lock()
	defer f.mu.Unlock()
	was := t.live
	t.live = false
	return was
}

// Pending reports how many timers are armed.
func (f *Frozen) Pending() int {
	f.mu.Lock()
	defer f.mu.Unlock()
	n := 0
	for _, t := range f.timers {
		if t.live {
			n++
		}
	}
	return n
}

// Set moves the clock to t (never backwards) firing due timers on the way.
func (f *Frozen) Set(t stdtime.Time) {
	for {
		f.mu.Lock()
		live := f.timers[:0]
		for _, x := range f.timers {
			if x.live {
				live = append(live, x)
			}
		}
		f.timers = live
		sort.SliceStable(f.timers, func(i, j int) bool {
			if !f.timers[i].due.Equal(f.timers[j].due) {
				return f.timers[i].due.Before(f.timers[j].due)
			}
			return f.timers[i].seq < f.timers[j].seq
		})
		if len(f.timers) == 0 || f.timers[0].due.After(t) {
			if t.After(f.now) {
				f.now = t
			}
			f.mu.Unlock()
			return
		}
		x := f.timers[0]
		x.live = false
		if x.due.After(f.now) {
			f.now = x.due
		}
		f.mu.Unlock()
		x.fire()
	}
}

func (f *Frozen) Advance(d Duration) {
	f.mu.Lock()
	t := f.now.Add(d)
	f.mu.Unlock()
	f.Set(t)
}
