// Package vmem owns the one piece of language-level nondeterminism rulio
// depends on in sequential code: Go's randomised map iteration order.  The
// rewriter turns `for k, v := range m` (m of map type) into an iteration over
// Keys(m); the order is sorted by default and can be chosen by an explorer
// (any permutation is a legal Go order).
package vmem

import (
	"fmt"
	"reflect"
	"sort"
	"sync"
	"unsafe"

	"github.com/Comcast/rulio/verifrt/sched"
)

// Chooser picks an iteration order for a map with n keys (n >= 2) at a site;
// it returns a permutation index in [0, n!) - 0 is the sorted order.  nil
// chooser = always sorted.
type Chooser func(n int) int

var (
	mu      sync.Mutex
	chooser Chooser
)

func SetChooser(c Chooser) {
	mu.Lock()
	chooser = c
	mu.Unlock()
}

// Keys returns the keys of m in the order owned by the harness.
func Keys[K comparable, V any](m map[K]V) []K {
	ks := make([]K, 0, len(m))
	for k := range m {
		ks = append(ks, k)
	}
	if len(ks) < 2 {
		return ks
	}
	switch xs := any(ks).(type) {
	case []string:
		sort.Strings(xs)
	case []int:
		sort.Ints(xs)
	default:
		sort.Slice(ks, func(i, j int) bool {
			return fmt.Sprintf("%v", ks[i]) < fmt.Sprintf("%v", ks[j])
		})
	}
	mu.Lock()
	c := chooser
	mu.Unlock()
	if c != nil {
		if p := c(len(ks)); p > 0 {
			ks = permute(ks, p)
		}
	}
	return ks
}

// permute returns the p-th permutation (factorial number system) of sorted xs.
func permute[K any](xs []K, p int) []K {
	pool := append([]K(nil), xs...)
	out := make([]K, 0, len(xs))
	n := len(pool)
	f := 1
	for i := 2; i < n; i++ {
		f *= i
	}
	// f = (n-1)!
	for i := n - 1; i >= 0; i-- {
		idx := 0
		if f > 0 {
			idx = (p / f) % (i + 1)
			p = p % f
		}
		out = append(out, pool[idx])
		pool = append(pool[:idx], pool[idx+1:]...)
		if i > 0 {
			f /= i
		}
	}
	return out
}

// Fact returns n! (saturating), handy for explorers enumerating orders.
func Fact(n int) int {
	f := 1
	for i := 2; i <= n; i++ {
		f *= i
		if f > 1<<20 {
			return 1 << 20
		}
	}
	return f
}

// KeysSI is the non-generic fast path for map[string]interface{} (usable from
// modules whose language version predates generics).
func KeysSI(m map[string]interface{}) []string { return Keys(m) }

// KeysR is the reflection fallback for non-generic call sites: it returns a
// []K (as interface{}) of m's keys in the owned order.
func KeysR(m interface{}) interface{} {
	v := reflect.ValueOf(m)
	ks := v.MapKeys()
	sort.Slice(ks, func(i, j int) bool {
		return fmt.Sprintf("%v", ks[i].Interface()) < fmt.Sprintf("%v", ks[j].Interface())
	})
	mu.Lock()
	c := chooser
	mu.Unlock()
	if c != nil && len(ks) >= 2 {
		if p := c(len(ks)); p > 0 {
			ks = permute(ks, p)
		}
	}
	out := reflect.MakeSlice(reflect.SliceOf(v.Type().Key()), 0, len(ks))
	for _, k := range ks {
		out = reflect.Append(out, k)
	}
	return out.Interface()
}

// R records a read of map m at site (level-3 instrumentation) and returns m.
func R[M ~map[K]V, K comparable, V any](m M, site string) M {
	if sched.Current() != nil && m != nil {
		a := *(*uintptr)(unsafe.Pointer(&m))
		sched.Access(a, mapName(site), site, false, m)
		sched.Did(memKey(a), "r", false)
	}
	return m
}

// W records a write of map m at site and returns m.
func W[M ~map[K]V, K comparable, V any](m M, site string) M {
	if sched.Current() != nil && m != nil {
		a := *(*uintptr)(unsafe.Pointer(&m))
		sched.Access(a, mapName(site), site, true, m)
		sched.Did(memKey(a), "w", true)
	}
	return m
}

// mapName: the expression part of "pkg.Type.Func:expr", receiver name dropped
// ("s.cachedRules" -> ".cachedRules") so that both sides of a race name the map alike.
func mapName(site string) string {
	for i := 0; i < len(site); i++ {
		if site[i] == ':' {
			e := site[i+1:]
			for j := 0; j < len(e); j++ {
				if e[j] == '.' {
					return e[j:]
				}
			}
			return e
		}
	}
	return site
}

type memKey uintptr

// FR / FW: a struct field reached through a pointer is read / written at site.
// The access is a scheduling point when the location is shared and feeds the
// happens-before race detector; the field's address is returned.
func FR[T any](p *T, site string) *T {
	if sched.Current() != nil {
		a := uintptr(unsafe.Pointer(p))
		sched.PointOnRW(fieldKey(a), "field read", false)
		sched.Access(a, mapName(site), site, false, p)
		sched.Did(fieldKey(a), "r", false)
	}
	return p
}

func FW[T any](p *T, site string) *T {
	if sched.Current() != nil {
		a := uintptr(unsafe.Pointer(p))
		sched.PointOnRW(fieldKey(a), "field write", true)
		sched.Access(a, mapName(site), site, true, p)
		sched.Did(fieldKey(a), "w", true)
	}
	return p
}

type fieldKey uintptr

// OW / OR: a method that writes / only reads is called on an object of another
// package that is not safe for concurrent use (math/rand.Rand, bytes.Buffer, …),
// reached through p.  Recorded for the happens-before race detector; p is returned.
func OW[T any](p *T, site string) *T {
	if sched.Current() != nil && p != nil {
		a := uintptr(unsafe.Pointer(p))
		sched.Access(a, "foreign:"+mapName(site), site, true, p)
		sched.Did(objKey(a), "w", true)
	}
	return p
}

func OR[T any](p *T, site string) *T {
	if sched.Current() != nil && p != nil {
		a := uintptr(unsafe.Pointer(p))
		sched.Access(a, "foreign:"+mapName(site), site, false, p)
		sched.Did(objKey(a), "r", false)
	}
	return p
}

type objKey uintptr
