// Package vchan routes channel operations of level-2 instrumented rulio code
// through the cooperative scheduler while keeping the NATIVE channel values (so
// channels shared with uninstrumented code, e.g. otto's Interrupt channel, keep
// working).  Every operation is a one-case select; buffered channels are
// operated natively without blocking when the scheduler says they are ready,
// unbuffered channels rendezvous through per-execution bookkeeping.  Outside a
// controlled execution everything falls through to the native operation.
package vchan

import (
	"fmt"
	"reflect"

	"github.com/Comcast/rulio/verifrt/sched"
)

type dir int

const (
	dirRecv dir = iota
	dirSend
)

// Case is one select case.
type Case struct {
	d   dir
	ch  reflect.Value
	val reflect.Value
}

// Val is a received value.
type Val struct{ v reflect.Value }

func R[T any](c <-chan T) Case { return Case{d: dirRecv, ch: reflect.ValueOf(c)} }
func S[T any](c chan<- T, v T) Case {
	return Case{d: dirSend, ch: reflect.ValueOf(c), val: reflect.ValueOf(&v).Elem()}
}

// As converts a received value to the element type of c.
func As[T any](c <-chan T, r Val) T {
	var out T
	if r.v.IsValid() {
		reflect.ValueOf(&out).Elem().Set(r.v)
	}
	return out
}

func Send[T any](c chan<- T, v T) { doSelect([]Case{S(c, v)}, false) }

func Recv[T any](c <-chan T) T {
	_, r, _ := doSelect([]Case{R(c)}, false)
	return As(c, r)
}

func Recv2[T any](c <-chan T) (T, bool) {
	_, r, ok := doSelect([]Case{R(c)}, false)
	return As(c, r), ok
}

// Select performs a select; idx is the chosen case or -1 for default.
func Select(hasDefault bool, cases ...Case) (idx int, r Val, ok bool) {
	return doSelect(cases, hasDefault)
}

type chanKey uintptr

func key(ch reflect.Value) chanKey {
	k := chanKey(ch.Pointer())
	if sched.Active() != nil { // (not Current(): key() also runs inside readiness predicates)
		if st := sched.St(k); st.Keep == nil {
			st.Keep = ch.Interface() // pin: the address identifies the channel for this execution
		}
	}
	return k
}

// Close closes c.
func Close[T any](c chan<- T) {
	ch := reflect.ValueOf(c)
	if sched.Current() == nil {
		ch.Close()
		return
	}
	k := key(ch)
	st := sched.St(k)
	sched.PointOn(k, "close(chan)")
	if st.N[0] != 0 {
		panic("close of closed channel")
	}
	st.N[0] = 1
	sched.Release(k)
	ch.Close()
	sched.Did(k, "close", true)
}

// ---- scheduled implementation --------------------------------------------------

type selState struct {
	done bool
	idx  int
	val  reflect.Value
	ok   bool
	// where this select is registered
	regs []chanKey
}

type waiter struct {
	sel     *selState
	caseIdx int
	d       dir
	val     reflect.Value
}

func closedFlag(k chanKey) bool { return sched.St(k).N[0] != 0 }

func partner(k chanKey, want dir, self *selState) *waiter {
	for _, q := range sched.St(k).Q {
		w := q.(*waiter)
		if w.d == want && w.sel != self && !w.sel.done {
			return w
		}
	}
	return nil
}

func unregister(sel *selState) {
	for _, k := range sel.regs {
		st := sched.St(k)
		keep := st.Q[:0]
		for _, q := range st.Q {
			if q.(*waiter).sel != sel {
				keep = append(keep, q)
			}
		}
		st.Q = keep
	}
	sel.regs = nil
}

func caseReady(c Case, self *selState) bool {
	if !c.ch.IsValid() || c.ch.IsNil() {
		return false
	}
	k := key(c.ch)
	if c.ch.Cap() > 0 {
		if c.d == dirRecv {
			return c.ch.Len() > 0 || closedFlag(k)
		}
		return c.ch.Len() < c.ch.Cap() || closedFlag(k)
	}
	if closedFlag(k) {
		return true
	}
	if c.d == dirRecv {
		return partner(k, dirSend, self) != nil
	}
	return partner(k, dirRecv, self) != nil
}

func doSelect(cases []Case, hasDefault bool) (int, Val, bool) {
	if sched.Current() == nil {
		return nativeSelect(cases, hasDefault)
	}
	i, v, ok := doSelectSched(cases, hasDefault)
	if i >= 0 {
		w := "recv"
		if cases[i].d == dirSend {
			w = "send"
		}
		sched.Did(key(cases[i].ch), w, true)
	} else {
		for _, c := range cases {
			if c.ch.IsValid() && !c.ch.IsNil() {
				sched.Did(key(c.ch), "default", false)
			}
		}
	}
	return i, v, ok
}

func doSelectSched(cases []Case, hasDefault bool) (int, Val, bool) {
	sel := &selState{}
	var objs []interface{}
	for i, c := range cases {
		if !c.ch.IsValid() || c.ch.IsNil() {
			continue
		}
		k := key(c.ch)
		objs = append(objs, k)
		if c.ch.Cap() == 0 {
			st := sched.St(k)
			st.Q = append(st.Q, &waiter{sel: sel, caseIdx: i, d: c.d, val: c.val})
			sel.regs = append(sel.regs, k)
		}
		if c.d == dirSend {
			sched.Release(k) // what the sender did so far happens before the matching receive
		} else if c.ch.Cap() == 0 {
			sched.Release(k)
		}
	}
	what := "select"
	if len(cases) == 1 {
		if cases[0].d == dirSend {
			what = "chan send"
		} else {
			what = "chan recv"
		}
	}
	sched.WaitUntilMulti(objs, what, func() bool {
		if sel.done || hasDefault {
			return true
		}
		for _, c := range cases {
			if caseReady(c, sel) {
				return true
			}
		}
		return false
	})
	if sel.done {
		// a partner completed one of our unbuffered cases
		k := key(cases[sel.idx].ch)
		sched.Acquire(k)
		return sel.idx, Val{sel.val}, sel.ok
	}
	var ready []int
	for i, c := range cases {
		if caseReady(c, sel) {
			ready = append(ready, i)
		}
	}
	if len(ready) == 0 {
		unregister(sel)
		if hasDefault {
			return -1, Val{}, false
		}
		panic("vchan: resumed with no ready case")
	}
	pick := ready[0]
	if len(ready) > 1 {
		pick = ready[sched.ChoiceN(len(ready), "select-case")]
	}
	unregister(sel)
	c := cases[pick]
	k := key(c.ch)
	if c.d == dirRecv {
		if c.ch.Cap() > 0 {
			v, ok := c.ch.TryRecv()
			if !v.IsValid() {
				panic("vchan: buffered receive would block although ready")
			}
			sched.Acquire(k)
			return pick, Val{v}, ok
		}
		if w := partner(k, dirSend, sel); w != nil {
			w.sel.done, w.sel.idx, w.sel.ok = true, w.caseIdx, true
			v := w.val
			unregister(w.sel)
			sched.Acquire(k)
			return pick, Val{v}, true
		}
		// closed
		sched.Acquire(k)
		return pick, Val{reflect.Zero(c.ch.Type().Elem())}, false
	}
	// send
	if closedFlag(k) {
		panic("send on closed channel")
	}
	if c.ch.Cap() > 0 {
		if !c.ch.TrySend(c.val) {
			panic("vchan: buffered send would block although ready")
		}
		return pick, Val{}, true
	}
	w := partner(k, dirRecv, sel)
	if w == nil {
		panic("vchan: unbuffered send resumed without a receiver")
	}
	w.sel.done, w.sel.idx, w.sel.val, w.sel.ok = true, w.caseIdx, c.val, true
	unregister(w.sel)
	sched.Acquire(k)
	return pick, Val{}, true
}

func nativeSelect(cases []Case, hasDefault bool) (int, Val, bool) {
	rc := make([]reflect.SelectCase, 0, len(cases)+1)
	for _, c := range cases {
		sc := reflect.SelectCase{Chan: c.ch}
		if c.d == dirSend {
			sc.Dir = reflect.SelectSend
			sc.Send = c.val
		} else {
			sc.Dir = reflect.SelectRecv
		}
		if !c.ch.IsValid() {
			sc.Chan = reflect.Value{}
		}
		rc = append(rc, sc)
	}
	if hasDefault {
		rc = append(rc, reflect.SelectCase{Dir: reflect.SelectDefault})
	}
	i, v, ok := reflect.Select(rc)
	if hasDefault && i == len(cases) {
		return -1, Val{}, false
	}
	if cases[i].d == dirSend {
		return i, Val{}, true
	}
	return i, Val{v}, ok
}

var _ = fmt.Sprint
