module verifharness

go 1.21

require (
	github.com/Comcast/rulio v0.0.0
	github.com/Comcast/sheens v2.0.0+incompatible
	github.com/anishathalye/porcupine v1.3.0
)

require (
	github.com/boltdb/bolt v1.3.1 // indirect
	github.com/hashicorp/golang-lru v0.5.4 // indirect
	github.com/robertkrimen/otto v0.0.0-20191219234010-c382bd3c16ff // indirect
	gopkg.in/sourcemap.v1 v1.0.5 // indirect
)

replace github.com/Comcast/rulio => /repo
