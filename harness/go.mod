module verifharness

go 1.21

require (
	github.com/Comcast/rulio v0.0.0
	github.com/Comcast/sheens v2.0.0+incompatible
	github.com/anishathalye/porcupine v1.3.0
	github.com/robertkrimen/otto v0.0.0-20191219234010-c382bd3c16ff
)

require (
	github.com/AdRoll/goamz v0.0.0-20170825154802-2731d20f46f4 // indirect
	github.com/bitly/go-simplejson v0.5.0 // indirect
	github.com/boltdb/bolt v1.3.1 // indirect
	github.com/cbroglie/mapstructure v0.0.0-20161118233042-300500ef91c1 // indirect
	github.com/gocql/gocql v0.0.0-20200624222514-34081eda590e // indirect
	github.com/golang/snappy v0.0.0-20170215233205-553a64147049 // indirect
	github.com/gorhill/cronexpr v0.0.0-20180427100037-88b0669f7d75 // indirect
	github.com/hailocab/go-hostpool v0.0.0-20160125115350-e80d13ce29ed // indirect
	github.com/hashicorp/golang-lru v0.5.4 // indirect
	gopkg.in/inf.v0 v0.9.1 // indirect
	gopkg.in/sourcemap.v1 v1.0.5 // indirect
	gopkg.in/yaml.v2 v2.3.0 // indirect
)

replace github.com/Comcast/rulio => /repo
