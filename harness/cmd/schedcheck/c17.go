package main

// C17 — the location cache is transparent (concurrent clauses).
//
// Engine SCHED through sys.System over a recording storage:
//  (i)  N = 2 (3 thorough) concurrent FIRST requests for one location, TTL
//       forever / 1ms: Storage.Load is called once for it and the requests'
//       results equal a sequential run;
//  (ii) TTL never / 1ms, 2-3 client threads x 1-2 requests on ONE location:
//       the call/return history must be linearizable against sequential runs
//       through an identically configured System (so a read that starts after
//       a write was acknowledged sees it), and the stored pairs must equal that
//       order's.

import (
	"encoding/json"
	"fmt"
	"sort"
	"strings"
	"time"

	"github.com/Comcast/rulio/core"
	"github.com/Comcast/rulio/sys"
	"github.com/Comcast/rulio/verifrt/sched"
	vsync "github.com/Comcast/rulio/verifrt/vsync"
	"verifharness/lib"
)

type c17w struct {
	s   *sys.System
	rec *lib.RecStore
}

func c17New(kind string, ttl time.Duration, populated bool) *c17w {
	ctx := lib.Ctx()
	rec := lib.NewRecStore(lib.MemStore(ctx))
	conf := sys.SystemConfig{Storage: "memory", UnindexedState: kind == "linear"}
	cont := sys.SystemControl{LocationTTL: ttl, DefaultLocControl: lib.QuietControl(), CachePending: true}
	s, err := sys.NewSystem(ctx, conf, cont, lib.NewRecCron(true))
	if err != nil {
		panic(err)
	}
	s.VerifSetStorage(rec)
	if populated {
		if _, err := s.AddFact(ctx, "L", "f1", `{"k":"v0"}`); err != nil {
			panic(err)
		}
	}
	return &c17w{s, rec}
}

type c17req struct {
	Name string
	Run  func(ctx *core.Context, w *c17w) string
}

func c17Reqs() []c17req {
	res := func(v string, err error) string {
		if err != nil {
			return "err:" + lib.ErrClass(err)
		}
		return v
	}
	return []c17req{
		{"AddFact(f1,v1)", func(ctx *core.Context, w *c17w) string { return res(w.s.AddFact(ctx, "L", "f1", `{"k":"v1"}`)) }},
		{"AddFact(f2,v2)", func(ctx *core.Context, w *c17w) string { return res(w.s.AddFact(ctx, "L", "f2", `{"k":"v2"}`)) }},
		{"RemFact(f1)", func(ctx *core.Context, w *c17w) string { return res(w.s.RemFact(ctx, "L", "f1")) }},
		{"GetFact(f1)", func(ctx *core.Context, w *c17w) string { return res(w.s.GetFact(ctx, "L", "f1")) }},
		{"SearchFacts", func(ctx *core.Context, w *c17w) string {
			sr, err := w.s.SearchFacts(ctx, "L", `{"k":"?v"}`, false)
			if err != nil {
				return res("", err)
			}
			return fmt.Sprint(foundListS(sr))
		}},
	}
}

// pairs reads the INNER storage (so the harness's own read is not counted as a Load)
func (w *c17w) pairs() string { return lib.Canon(lib.Pairs(lib.Ctx(), w.rec.Inner, "L")) }

type c17seq struct {
	order   [][2]int
	results map[[2]int]string
	final   string
}

func c17Sequential(kind string, ttl time.Duration, populated bool, progs [][]int, reqs []c17req) []c17seq {
	var out []c17seq
	pos := make([]int, len(progs))
	var order [][2]int
	var rec func()
	rec = func() {
		done := true
		for t := range progs {
			if pos[t] < len(progs[t]) {
				done = false
				order = append(order, [2]int{t, pos[t]})
				pos[t]++
				rec()
				pos[t]--
				order = order[:len(order)-1]
			}
		}
		if done {
			w := c17New(kind, ttl, populated)
			s := c17seq{order: append([][2]int{}, order...), results: map[[2]int]string{}}
			for _, o := range order {
				s.results[o] = reqs[progs[o[0]][o[1]]].Run(lib.Ctx(), w)
			}
			s.final = w.pairs()
			out = append(out, s)
		}
	}
	rec()
	return out
}

func c17Scenario(kind string, ttl time.Duration, ttlName string, populated bool, progs [][]int, reqs []c17req, bound int, singleLoad bool) *lib.SchedScenario {
	var names []string
	for t, p := range progs {
		var xs []string
		for _, o := range p {
			xs = append(xs, reqs[o].Name)
		}
		names = append(names, fmt.Sprintf("T%d[%s]", t+1, strings.Join(xs, ";")))
	}
	name := fmt.Sprintf("C17/%s/ttl=%s/populated=%v/%s", kind, ttlName, populated, strings.Join(names, " || "))
	var seqs []c17seq
	return &lib.SchedScenario{
		Name: name, Bound: bound, MaxSteps: 200000, NoEarlyTimers: true,
		Body: func(r *lib.Run) {
			w := c17New(kind, ttl, populated)
			if populated {
				// make every client's request a FIRST request: a fresh System over the same storage
				ctx := lib.Ctx()
				conf := sys.SystemConfig{Storage: "memory", UnindexedState: kind == "linear"}
				cont := sys.SystemControl{LocationTTL: ttl, DefaultLocControl: lib.QuietControl(), CachePending: true}
				s2, err := sys.NewSystem(ctx, conf, cont, lib.NewRecCron(true))
				if err != nil {
					panic(err)
				}
				s2.VerifSetStorage(w.rec)
				w.s = s2
				w.rec.Loads = map[string]int{}
			}
			r.Data["w"] = w
			var wg vsync.WaitGroup
			var clock int
			// two Loads of the location in flight at the same time: the second first
			// request must wait for the load in progress, not start its own
			inFlight, concurrentLoads := 0, 0
			w.rec.OnLoad = func(ctx *core.Context, loc string) {
				if loc == "L" {
					inFlight++
					if inFlight > 1 {
						concurrentLoads++
					}
				}
			}
			w.rec.OnLoaded = func(ctx *core.Context, loc string) {
				if loc == "L" {
					inFlight--
				}
			}
			events := make([]*c12event, 0, 8)
			r.Data["events"] = &events
			wg.Add(len(progs))
			for t := range progs {
				t := t
				r.Go(func() {
					ctx := lib.Ctx()
					for i, o := range progs[t] {
						ev := &c12event{thread: t, idx: i}
						clock++
						ev.call = clock
						events = append(events, ev)
						ev.result = reqs[o].Run(ctx, w)
						clock++
						ev.ret = clock
					}
					wg.Done()
				})
			}
			wg.Wait()
			r.Data["final"] = w.pairs()
			r.Data["loads"] = w.rec.Loads["L"]
			r.Data["concurrentLoads"] = concurrentLoads
			for _, ev := range events {
				r.Record("T%d.%d=%s", ev.thread+1, ev.idx, ev.result)
			}
			r.Record("loads=%d", w.rec.Loads["L"])
		},
		Check: func(r *lib.Run) []*lib.Violation {
			if r.Exec.Deadlock != "" {
				return []*lib.Violation{{Signature: "C17/" + kind + "/deadlock", Summary: name + ": deadlock: " + r.Exec.Deadlock}}
			}
			if r.Exec.Panic != "" {
				return []*lib.Violation{{Signature: "C17/" + kind + "/panic:" + c12PanicClass(r.Exec.Panic), Summary: name + ": " + firstLines(r.Exec.Panic, 6)}}
			}
			if r.Exec.CapHit {
				return nil
			}
			var vs []*lib.Violation
			loads, _ := r.Data["loads"].(int)
			if n, _ := r.Data["concurrentLoads"].(int); n > 0 {
				vs = append(vs, &lib.Violation{Signature: "C17/" + kind + "/two-loads-of-one-location-in-flight:ttl=" + ttlName, Summary: fmt.Sprintf("%s: a second Storage.Load of the location started while another was still executing (%d times)", name, n)})
			}
			if singleLoad && loads != 1 {
				vs = append(vs, &lib.Violation{Signature: "C17/" + kind + "/concurrent-first-requests-load-the-location-more-than-once", Summary: fmt.Sprintf("%s: Storage.Load was called %d times for the location", name, loads), Expected: 1, Observed: loads})
			}
			if seqs == nil {
				seqs = c17Sequential(kind, ttl, populated, progs, reqs)
			}
			evp, _ := r.Data["events"].(*[]*c12event)
			final, _ := r.Data["final"].(string)
			if evp == nil {
				return vs
			}
			events := *evp
			byKey := map[[2]int]*c12event{}
			for _, ev := range events {
				byKey[[2]int{ev.thread, ev.idx}] = ev
			}
			resultsOK, stateOK := false, false
			for _, s := range seqs {
				ok := true
				posOf := map[[2]int]int{}
				for i, o := range s.order {
					posOf[o] = i
				}
				for _, a := range events {
					for _, b := range events {
						if a.ret < b.call && posOf[[2]int{a.thread, a.idx}] > posOf[[2]int{b.thread, b.idx}] {
							ok = false
						}
					}
				}
				if !ok {
					continue
				}
				same := true
				for k, ev := range byKey {
					if s.results[k] != ev.result {
						same = false
					}
				}
				if same {
					resultsOK = true
					if s.final == final {
						stateOK = true
						break
					}
				}
			}
			if !resultsOK && ttlName == "never" {
				// classifier for the recorded Pending-flag defect: it needs LocationTTL never
				// (an entry is evictable the moment the flag drops) and a Release while
				// another request is still using the entry
				vs = append(vs, &lib.Violation{Signature: "C17/" + kind + "/entry-in-use-evicted-when-another-request-finishes:ttl=never", Summary: fmt.Sprintf("%s: observed results %v are not explained by any sequential order that respects real time", name, r.Obs()), Observed: r.Obs()})
			} else if !resultsOK {
				vs = append(vs, &lib.Violation{Signature: "C17/" + kind + "/cache-serves-state-missing-an-acknowledged-write", Summary: fmt.Sprintf("%s: observed results %v are not explained by any sequential order that respects real time", name, r.Obs()), Observed: r.Obs()})
			} else if !stateOK {
				vs = append(vs, &lib.Violation{Signature: "C17/" + kind + "/stored-state-matches-no-linearization:" + c17Kinds(progs, reqs), Summary: fmt.Sprintf("%s: results %v are linearizable but the stored pairs %s equal those of no such order", name, r.Obs(), final), Observed: final})
			}
			return vs
		},
		Races: func(rc sched.Race) *lib.Violation {
			return &lib.Violation{Signature: "C17/" + kind + "/data-race:" + rc.Loc + ":" + rc.SiteA + "~" + rc.SiteB, Summary: fmt.Sprintf("%s: %s data race on %s between %s and %s", name, rc.Kinds, rc.Loc, rc.SiteA, rc.SiteB)}
		},
	}
}

func c17Kinds(progs [][]int, reqs []c17req) string {
	var ks []string
	for _, p := range progs {
		for _, o := range p {
			ks = append(ks, strings.SplitN(reqs[o].Name, "(", 2)[0])
		}
	}
	sort.Strings(ks)
	return strings.Join(ks, "~")
}

func c17SchedScenarios(tier string) []*lib.SchedScenario {
	reqs := c17Reqs()
	var scs []*lib.SchedScenario
	bound := 1
	if tier == "thorough" {
		bound = 2
	}
	for _, kind := range []string{"indexed", "linear"} {
		// (i) single load
		for _, ttl := range []struct {
			n string
			d time.Duration
		}{{"forever", sys.Forever}, {"1ms", time.Millisecond}} {
			for _, progs := range [][][]int{{{3}, {3}}, {{3}, {4}}, {{0}, {3}}, {{0}, {1}}} {
				scs = append(scs, c17Scenario(kind, ttl.d, ttl.n, true, progs, reqs, bound, true))
			}
			if tier == "thorough" {
				scs = append(scs, c17Scenario(kind, ttl.d, ttl.n, true, [][]int{{3}, {4}, {1}}, reqs, 2, true))
			}
		}
		// (i') TTL never: overlapping first requests share one load (a later,
		// non-overlapping request legitimately loads again)
		for _, progs := range [][][]int{{{3}, {3}}, {{3}, {4}}, {{0}, {3}}, {{0}, {1}}} {
			scs = append(scs, c17Scenario(kind, sys.Never, "never", true, progs, reqs, bound, false))
		}
		// (ii) no stale instance
		for _, ttl := range []struct {
			n string
			d time.Duration
		}{{"never", sys.Never}, {"1ms", time.Millisecond}} {
			for _, progs := range [][][]int{
				{{0, 3}, {4}}, {{0, 3}, {3}}, {{1, 4}, {4}}, {{2, 3}, {3}}, {{0}, {3, 3}}, {{1}, {4, 4}}, {{0, 3}, {1, 4}},
			} {
				scs = append(scs, c17Scenario(kind, ttl.d, ttl.n, true, progs, reqs, bound, false))
			}
			for _, progs := range [][][]int{{{0, 3}, {4}, {3}}, {{1}, {4}, {4, 4}}} {
				b := 1
				if tier == "thorough" {
					b = 2
				}
				scs = append(scs, c17Scenario(kind, ttl.d, ttl.n, true, progs, reqs, b, false))
			}
		}
	}
	return scs
}

func init() {
	lib.Register(&lib.Check{
		ID:    "C17",
		Level: "model_checking",
		Rule: "schedule exploration through sys.System over a recording storage (deviation bound 1 quick / 2 thorough): concurrent FIRST requests for one location under TTL forever/1ms (Storage.Load count must be 1), and 2-3 client threads x 1-2 requests on one location under TTL never/1ms (brute-force linearizability against sequential runs through an identically configured System, stored pairs included); both states; " +
			"states = distinct observed outcomes, traces = schedules executed",
		Assumptions: []string{
			"virtual time does not advance during these scenarios, so a 1ms TTL never expires by itself (the sequential part advances the clock)",
		},
		Budget: func(tier string) time.Duration {
			if tier == "thorough" {
				return 25 * time.Minute
			}
			return 4 * time.Minute
		},
		Run: func(w *lib.Worker) {
			for i, sc := range c17SchedScenarios(w.Tier) {
				if i%w.NShards != w.Shard {
					continue
				}
				if w.TimeUp() {
					w.Cap("time budget reached before all scenarios were explored")
					return
				}
				w.ExploreWhole(sc)
			}
		},
		ReplayFn: func(w *lib.Worker, raw json.RawMessage) { w.ReplaySched(raw, c17SchedScenarios("thorough")) },
	})
}
