package main

// C11 — concurrent requests to different locations do not interfere.
//
// Engine SCHED on a FRESH sys.System per execution (so the very first requests
// race on start-up state).  Client threads each own one location and issue 1-2
// requests; storage is either the System's own lazily created memory storage
// or one injected by the harness; both states.  Oracle per schedule: every
// client's results equal those of running that client alone on a fresh System;
// every location's final facts AND the pairs found under it in THE SYSTEM'S
// storage equal the solo run's; no deadlock, no escaped panic, no
// happens-before race (maps everywhere, struct fields of sys and cron).

import (
	"encoding/json"
	"fmt"
	"sort"
	"strings"
	"time"

	"github.com/Comcast/rulio/core"
	"github.com/Comcast/rulio/sys"
	"github.com/Comcast/rulio/verifrt/sched"
	vsync "github.com/Comcast/rulio/verifrt/vsync"
	"verifharness/lib"
)

type c11req struct {
	Name string
	Run  func(ctx *core.Context, s *sys.System, loc string) string
}

func c11Reqs() []c11req {
	res := func(v string, err error) string {
		if err != nil {
			return "err:" + lib.ErrClass(err)
		}
		return v
	}
	return []c11req{
		{"AddFact", func(ctx *core.Context, s *sys.System, loc string) string {
			return res(s.AddFact(ctx, loc, "f", `{"k":"`+loc+`"}`))
		}},
		{"SearchFacts", func(ctx *core.Context, s *sys.System, loc string) string {
			sr, err := s.SearchFacts(ctx, loc, `{"k":"?v"}`, true)
			if err != nil {
				return res("", err)
			}
			return fmt.Sprint(foundListS(sr))
		}},
		{"AddRule", func(ctx *core.Context, s *sys.System, loc string) string {
			return res(s.AddRule(ctx, loc, "r", `{"when":{"pattern":{"e":"?e"}},"action":{"code":"'fired-`+loc+`'"}}`))
		}},
		{"ProcessEvent", func(ctx *core.Context, s *sys.System, loc string) string {
			fr, err := s.ProcessEvent(ctx, loc, `{"e":"1"}`)
			if err != nil {
				return res("", err)
			}
			return fmt.Sprint(fr.Values)
		}},
		{"GetFact", func(ctx *core.Context, s *sys.System, loc string) string {
			return res(s.GetFact(ctx, loc, "f"))
		}},
	}
}

func foundListS(sr *core.SearchResults) []string {
	var out []string
	for _, f := range sr.Found {
		out = append(out, f.Id+"="+strings.Join(lib.BindingsSet(f.Bindingss), ";"))
	}
	sort.Strings(out)
	return out
}

type c11world struct {
	sys   *sys.System
	store core.Storage // injected storage (nil = the System creates its own)
}

func c11New(kind string, inject bool) *c11world {
	ctx := lib.Ctx()
	conf := sys.SystemConfig{Storage: "memory", UnindexedState: kind == "linear"}
	cont := sys.SystemControl{LocationTTL: sys.Forever, DefaultLocControl: lib.QuietControl(), CachePending: true}
	s, err := sys.NewSystem(ctx, conf, cont, lib.NewRecCron(true))
	if err != nil {
		panic(err)
	}
	w := &c11world{sys: s}
	if inject {
		w.store = lib.MemStore(ctx)
		s.VerifSetStorage(w.store)
	}
	return w
}

// state of one location as the System sees it: cached memory + pairs in the
// System's (current) storage
func (w *c11world) snapshot(loc string) string {
	ctx := lib.Ctx()
	mem := "(not cached)"
	if l := w.sys.VerifCachedLocation(loc); l != nil {
		mem = stripCachedS(core.VerifDumpJSON(l.VerifState()))
	}
	st := w.sys.VerifStorage()
	pairs := "(no storage)"
	if st != nil {
		pairs = lib.Canon(lib.Pairs(ctx, st, loc))
	}
	return mem + "|" + pairs
}

func c11Scenario(kind string, inject bool, progs [][]int, reqs []c11req, bound int) *lib.SchedScenario {
	var names []string
	for t, p := range progs {
		var xs []string
		for _, o := range p {
			xs = append(xs, reqs[o].Name)
		}
		names = append(names, fmt.Sprintf("L%d[%s]", t+1, strings.Join(xs, ";")))
	}
	name := fmt.Sprintf("C11/%s/injected-storage=%v/%s", kind, inject, strings.Join(names, " || "))
	// solo reference: each client alone on a fresh System
	var solo []struct {
		results []string
		final   string
	}
	computeSolo := func() {
		for t, p := range progs {
			w := c11New(kind, inject)
			loc := fmt.Sprintf("L%d", t+1)
			var rs []string
			ctx := lib.Ctx()
			for _, o := range p {
				rs = append(rs, reqs[o].Run(ctx, w.sys, loc))
			}
			solo = append(solo, struct {
				results []string
				final   string
			}{rs, w.snapshot(loc)})
		}
	}
	return &lib.SchedScenario{
		Name: name, Bound: bound, MaxSteps: 200000, NoEarlyTimers: true,
		Body: func(r *lib.Run) {
			w := c11New(kind, inject)
			var wg vsync.WaitGroup
			results := make([][]string, len(progs))
			wg.Add(len(progs))
			for t := range progs {
				t := t
				r.Go(func() {
					ctx := lib.Ctx()
					loc := fmt.Sprintf("L%d", t+1)
					for _, o := range progs[t] {
						results[t] = append(results[t], reqs[o].Run(ctx, w.sys, loc))
					}
					wg.Done()
				})
			}
			wg.Wait()
			finals := make([]string, len(progs))
			for t := range progs {
				finals[t] = w.snapshot(fmt.Sprintf("L%d", t+1))
			}
			r.Data["results"] = results
			r.Data["finals"] = finals
			r.Record("%v", results)
		},
		Check: func(r *lib.Run) []*lib.Violation {
			if r.Exec.Deadlock != "" {
				return []*lib.Violation{{Signature: "C11/" + kind + "/deadlock", Summary: name + ": deadlock: " + r.Exec.Deadlock}}
			}
			if r.Exec.Panic != "" {
				return []*lib.Violation{{Signature: "C11/" + kind + "/panic:" + c12PanicClass(r.Exec.Panic), Summary: name + ": " + firstLines(r.Exec.Panic, 6)}}
			}
			if r.Exec.CapHit {
				return nil
			}
			if solo == nil {
				computeSolo()
			}
			results, _ := r.Data["results"].([][]string)
			finals, _ := r.Data["finals"].([]string)
			var vs []*lib.Violation
			for t := range progs {
				if t >= len(results) {
					continue
				}
				if strings.Join(results[t], "\n") != strings.Join(solo[t].results, "\n") {
					vs = append(vs, &lib.Violation{Signature: "C11/" + kind + "/client-result-differs-from-solo-run", Summary: fmt.Sprintf("%s: client of L%d got %v; alone it gets %v", name, t+1, results[t], solo[t].results), Expected: solo[t].results, Observed: results[t]})
				}
				if finals[t] != solo[t].final {
					sig := "C11/" + kind + "/location-state-differs-from-solo-run"
					if strings.HasSuffix(finals[t], "|{}") && !strings.HasSuffix(solo[t].final, "|{}") {
						sig = "C11/" + kind + "/location-data-missing-from-the-systems-storage"
					}
					vs = append(vs, &lib.Violation{Signature: sig, Summary: fmt.Sprintf("%s: location L%d ends as %s; after the same requests alone it is %s", name, t+1, finals[t], solo[t].final), Expected: solo[t].final, Observed: finals[t]})
				}
			}
			return vs
		},
		Races: func(rc sched.Race) *lib.Violation {
			return &lib.Violation{Signature: "C11/" + kind + "/data-race:" + rc.Loc + ":" + rc.SiteA + "~" + rc.SiteB, Summary: fmt.Sprintf("%s: %s data race on %s between %s and %s (unordered by happens-before)", name, rc.Kinds, rc.Loc, rc.SiteA, rc.SiteB)}
		},
	}
}

func c11Scenarios(tier string) []*lib.SchedScenario {
	reqs := c11Reqs()
	var scs []*lib.SchedScenario
	bound := 2
	if tier == "thorough" {
		bound = 3
	}
	for _, kind := range []string{"indexed", "linear"} {
		for _, inject := range []bool{false, true} {
			// two clients, one request each: all ordered pairs
			for a := range reqs {
				for b := range reqs {
					scs = append(scs, c11Scenario(kind, inject, [][]int{{a}, {b}}, reqs, bound))
				}
			}
			// two clients, two requests each (write then observe)
			for _, p := range [][]int{{0, 1}, {0, 4}, {2, 3}} {
				for _, q := range [][]int{{0, 1}, {2, 3}} {
					scs = append(scs, c11Scenario(kind, inject, [][]int{p, q}, reqs, bound))
				}
			}
			if tier == "thorough" {
				for _, a := range []int{0, 2, 3} {
					for _, b := range []int{0, 2, 3} {
						for _, c := range []int{0, 3} {
							scs = append(scs, c11Scenario(kind, inject, [][]int{{a}, {b}, {c}}, reqs, 2))
						}
					}
				}
			}
		}
	}
	return scs
}

func init() {
	lib.Register(&lib.Check{
		ID:    "C11",
		Level: "model_checking",
		Rule: "stateless schedule exploration (deviation bound 2 quick / 3 thorough) of client threads that each own one location of a FRESH sys.System: all ordered pairs of {AddFact, SearchFacts, AddRule, ProcessEvent, GetFact} as first requests, 2x2-request programs, (thorough) three clients; storage created lazily by the System or injected; both states; oracle: per-client results and per-location memory + the System's storage pairs equal the solo run, no deadlock / panic / happens-before race (maps; struct fields of sys and cron); " +
			"states = distinct observed outcomes, traces = schedules executed",
		Assumptions: []string{
			"the HTTP service layer is driven sequentially by C18; here requests enter at the sys.System API",
			"struct-field accesses are scheduling points and race-checked in packages sys and cron only; in core only map accesses are",
		},
		Budget: func(tier string) time.Duration {
			if tier == "thorough" {
				return 30 * time.Minute
			}
			return 5 * time.Minute
		},
		Run: func(w *lib.Worker) {
			for i, sc := range c11Scenarios(w.Tier) {
				if i%w.NShards != w.Shard {
					continue
				}
				if w.TimeUp() {
					w.Cap("time budget reached before all scenarios were explored")
					return
				}
				w.ExploreWhole(sc)
			}
		},
		ReplayFn: func(w *lib.Worker, raw json.RawMessage) { w.ReplaySched(raw, c11Scenarios("thorough")) },
	})
}
