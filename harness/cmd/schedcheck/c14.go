package main

// C14 — script execution is contained.
//
// Engine GEN x SCHED with virtual time.  Scripts: value (`1+1`, `x` with a
// binding), throwing (`throw "e"`, an undefined variable), syntactically
// invalid, non-terminating with a visible wait (`while(true){Env.sleep(1e6)}`:
// Env.sleep is time.Sleep, i.e. a scheduling point in virtual time, and otto
// polls its Interrupt channel at every statement), slow-but-finishing (sleeps
// totalling less / more than the limit).  Timeout settings:
// Control.JavascriptTimeout in {0, 5ms, negative} x DefaultJavascriptTimeout in
// {10ms, negative} x JavascriptTimeouts on/off.  Contexts: Location.RunJavascript,
// a rule condition, a rule action.  The explorer may let the watchdog timer
// land early at any scheduling point (one deviation), so it can fire before the
// script starts, between two statements, after the script finished but before
// the deferred clean-up, or never.
//
// Oracle: the caller returns on every schedule (otherwise the scheduler reports
// the deadlock); an overrunning script yields an error / a non-complete node
// within limit + one sleep quantum of virtual time, never a success; throwing
// and invalid scripts yield errors; within-limit scripts return their value.
// When the timer was made to land early, a finishing script may legitimately
// end either way (value or timeout error) — but never hang, never (nil, nil).
//
// A pure busy loop never reaches a scheduling point; that family runs natively
// in a subprocess against a real-time deadline (c14Native).

import (
	"encoding/json"
	"fmt"
	"os"
	"os/exec"
	"strings"
	"time"

	"github.com/Comcast/rulio/core"
	"github.com/Comcast/rulio/verifrt/sched"
	"verifharness/lib"
)

type c14script struct {
	Name     string
	Code     string
	Bind     map[string]interface{}
	Value    string        // canonical expected value when it finishes ("" = must be an error)
	Duration time.Duration // virtual running time; <0 = never ends
	Quantum  time.Duration // longest single wait inside the script (an interrupt is seen at the next statement)
}

var c14Scripts = []c14script{
	{"value", "1+1", nil, "2", 0, 0},
	{"binding", "x", map[string]interface{}{"?x": 5.0}, "5", 0, 0},
	{"throw", `throw "e"`, nil, "", 0, 0},
	{"undefined", "undefinedVar", nil, "", 0, 0},
	{"syntax", "1 +", nil, "", 0, 0},
	{"forever", "while(true){Env.sleep(1000000)}", nil, "", -1, time.Millisecond},
	{"slow4ms", "Env.sleep(2000000); Env.sleep(2000000); 7", nil, "7", 4 * time.Millisecond, 2 * time.Millisecond},
	{"slow6ms", "Env.sleep(2000000); Env.sleep(2000000); Env.sleep(2000000); 8", nil, "8", 6 * time.Millisecond, 2 * time.Millisecond},
	// longer than every configured limit, but finishing: must return its value wherever timeouts are off
	{"slow12ms", "Env.sleep(4000000); Env.sleep(4000000); Env.sleep(4000000); 9", nil, "9", 12 * time.Millisecond, 4 * time.Millisecond},
}

type c14conf struct {
	Control time.Duration // Control.JavascriptTimeout
	Default time.Duration // SystemParameters.DefaultJavascriptTimeout
	Enabled bool          // SystemParameters.JavascriptTimeouts
}

func (c c14conf) limit() time.Duration {
	if !c.Enabled {
		return -1
	}
	t := c.Control
	if t == 0 {
		t = c.Default
	}
	if t < 0 {
		return -1
	}
	return t
}

type c14case struct {
	Script  string  `json:"script"`
	Conf    c14conf `json:"conf"`
	Context string  `json:"context"` // run | condition | action
}

type c14out struct {
	returned bool
	value    string
	err      string
	elapsed  time.Duration
	nilOK    bool // success with a nil value
	// lenient: only 'the caller gets control back' is judged (nested / concurrent scripts)
	lenient bool
}

func c14Exec(sc c14script, cf c14conf, context string, r *lib.Run) c14out {
	saveT, saveD := core.SystemParameters.JavascriptTimeouts, core.SystemParameters.DefaultJavascriptTimeout
	core.SystemParameters.JavascriptTimeouts = cf.Enabled
	core.SystemParameters.DefaultJavascriptTimeout = cf.Default
	defer func() {
		core.SystemParameters.JavascriptTimeouts, core.SystemParameters.DefaultJavascriptTimeout = saveT, saveD
	}()
	ctx := lib.Ctx()
	loc := lib.MustLoc(ctx, "indexed", "L", lib.MemStore(ctx))
	ctl := lib.QuietControl()
	ctl.JavascriptTimeout = core.Duration(cf.Control)
	loc.SetControl(ctl)
	start := r.Exec.Clock()
	var out c14out
	switch context {
	case "run":
		var bs *core.Bindings
		if sc.Bind != nil {
			b := core.Bindings{}
			for k, v := range sc.Bind {
				b[strings.TrimPrefix(k, "?")] = v
			}
			bs = &b
		}
		v, err := loc.RunJavascript(ctx, sc.Code, nil, bs, nil)
		out.returned = true
		if err != nil {
			out.err = err.Error()
		} else {
			out.value = lib.Canon(v)
			out.nilOK = v == nil
		}
	case "nested-run", "concurrent-actions":
		// the script runs while ANOTHER script is running under the same Context:
		// nested (an outer script calls Env.ProcessEvent and the rule's action is the
		// script) or as one of two concurrently executed actions of one rule
		rule := map[string]interface{}{"when": map[string]interface{}{"pattern": map[string]interface{}{"e": "?e"}}}
		if context == "nested-run" {
			rule["action"] = map[string]interface{}{"code": sc.Code}
		} else {
			rule["actions"] = []interface{}{map[string]interface{}{"code": "Env.sleep(1000000); 'first'"}, map[string]interface{}{"code": sc.Code}}
		}
		if _, aerr := loc.AddRule(ctx, "r", core.Map(rule)); aerr != nil {
			out.returned = true
			out.err = "addrule: " + aerr.Error()
			break
		}
		if context == "nested-run" {
			_, err := loc.RunJavascript(ctx, "Env.ProcessEvent({e:5}); 'outer-done'", nil, nil, nil)
			out.returned = true
			if err != nil {
				out.err = err.Error()
			}
		} else {
			loc.ProcessEvent(ctx, core.Map{"e": 5.0})
			out.returned = true
		}
		out.lenient = true
	case "condition", "or-condition", "multi-condition", "action":
		rule := map[string]interface{}{"when": map[string]interface{}{"pattern": map[string]interface{}{"e": "?e"}}}
		if sc.Bind != nil {
			rule["when"] = map[string]interface{}{"pattern": map[string]interface{}{"e": "?x"}}
		}
		if context == "condition" {
			rule["condition"] = map[string]interface{}{"code": sc.Code}
			rule["action"] = map[string]interface{}{"code": "'done'"}
		} else if context == "multi-condition" {
			// the script is evaluated for two candidate bindings (one per fact) and
			// behaves like sc.Code for one of them only: a failure for ONE candidate is
			// still a failed node, never a silently dropped candidate
			for _, c := range []string{"c0", "c1"} {
				if _, err := loc.AddFact(ctx, c, core.Map{"c": c}); err != nil {
					panic(err)
				}
			}
			rule["condition"] = map[string]interface{}{"and": []interface{}{
				map[string]interface{}{"pattern": map[string]interface{}{"c": "?c"}},
				map[string]interface{}{"code": "if (c == 'c0') { true } else { " + sc.Code + " }"}}}
			rule["action"] = map[string]interface{}{"code": "'done'"}
		} else if context == "or-condition" {
			// the script is one disjunct, next to one that always holds
			rule["condition"] = map[string]interface{}{"or": []interface{}{
				map[string]interface{}{"code": sc.Code}, map[string]interface{}{"code": "true"}}}
			rule["action"] = map[string]interface{}{"code": "'done'"}
		} else {
			rule["action"] = map[string]interface{}{"code": sc.Code}
		}
		_, aerr := loc.AddRule(ctx, "r", core.Map(rule))
		if aerr != nil {
			// rejected at AddRule (syntax error): reported as an error — fine
			out.returned = true
			out.err = "addrule: " + aerr.Error()
			break
		}
		ev := core.Map{"e": 5.0}
		fr, cond := loc.ProcessEvent(ctx, ev)
		out.returned = true
		var node *core.EvalRuleCondition
		if fr != nil && len(fr.Children) == 1 && len(fr.Children[0].Children) == 1 {
			node = fr.Children[0].Children[0]
		}
		switch {
		case node == nil:
			out.err = fmt.Sprintf("no condition node (cond=%v)", cond)
		case context == "condition" || context == "or-condition" || context == "multi-condition":
			if node.Disposition != core.Complete {
				out.err = fmt.Sprint(node.Disposition)
			} else if len(node.Children) > 0 {
				out.value = "kept"
			} else {
				out.value = "dropped"
			}
		default:
			if node.Disposition != core.Complete || len(node.Children) != 1 {
				out.err = fmt.Sprintf("condition node %v with %d actions", node.Disposition, len(node.Children))
			} else if a := node.Children[0]; a.Disposition != core.Complete {
				out.err = fmt.Sprint(a.Disposition)
			} else {
				out.value = lib.Canon(a.Value)
				out.nilOK = a.Value == nil
			}
		}
	}
	out.elapsed = r.Exec.Clock().Sub(start)
	return out
}

func c14Scenario(sc c14script, cf c14conf, context string, bound int) *lib.SchedScenario {
	name := fmt.Sprintf("C14/%s/%s/control=%v default=%v timeouts=%v", context, sc.Name, cf.Control, cf.Default, cf.Enabled)
	limit := cf.limit()
	return &lib.SchedScenario{
		Name: name, Bound: bound, MaxSteps: 20000, Horizon: int64(40 * time.Millisecond),
		// two script runs in a row: the first run's watchdog timer is still pending when
		// the second starts, and letting it "land early" would move the clock past the
		// second run's limit before that run's own watchdog goroutine was ever scheduled
		// (starving a runnable thread across a passage of time) - not offered here
		NoEarlyTimers: context == "multi-condition",
		Body: func(r *lib.Run) {
			out := c14Exec(sc, cf, context, r)
			r.Data["out"] = out
			r.Record("returned=%v value=%s err=%v", out.returned, out.value, out.err != "")
		},
		Check: func(r *lib.Run) []*lib.Violation {
			if r.Exec.Panic != "" {
				return []*lib.Violation{{Signature: "C14/panic", Summary: name + ": " + firstLines(r.Exec.Panic, 5)}}
			}
			early := 0
			for _, p := range r.Exec.Trace {
				if p.Options[p.Chosen].Thread == -1 {
					early++
				}
			}
			out, _ := r.Data["out"].(c14out)
			overruns := limit >= 0 && (sc.Duration < 0 || sc.Duration > limit)
			if r.Exec.Deadlock != "" {
				sig := "C14/" + context + "/caller-never-returns"
				if strings.Contains(r.Exec.Deadlock, "chan send") {
					sig = "C14/" + context + "/caller-blocks-forever-on-watchdog-cleanup-after-timeout"
				}
				return []*lib.Violation{{Signature: sig, Summary: fmt.Sprintf("%s: the caller never gets control back (limit %v, early timer landings %d): %s", name, limit, early, r.Exec.Deadlock)}}
			}
			if r.Exec.CapHit {
				if limit >= 0 && sc.Duration < 0 {
					return []*lib.Violation{{Signature: "C14/" + context + "/non-terminating-script-not-stopped", Summary: fmt.Sprintf("%s: still running at the 40ms horizon with a %v limit", name, limit)}}
				}
				return nil // no limit configured and the script never ends: nothing to contain
			}
			if !out.returned || out.lenient {
				return nil
			}
			var vs []*lib.Violation
			bad := func(sig, msg string) {
				vs = append(vs, &lib.Violation{Signature: "C14/" + context + "/" + sig, Summary: fmt.Sprintf("%s: %s (value=%q err=%q elapsed=%v limit=%v early-timer-landings=%d)", name, msg, out.value, out.err, out.elapsed, limit, early)})
			}
			wantValue := sc.Value
			if (context == "condition" || context == "or-condition" || context == "multi-condition") && sc.Value != "" {
				wantValue = "kept"
			}
			switch {
			case overruns:
				if out.err == "" {
					if out.nilOK || out.value == "null" {
						bad("timeout-reported-as-success-with-nil-value", "the script overran its limit but the call reports success")
					} else {
						bad("overrunning-script-reported-as-success", "the script overran its limit but the call reports success")
					}
				} else if early == 0 && out.elapsed > limit+sc.Quantum {
					bad("timeout-detected-late", "the overrun was reported later than limit + one sleep quantum")
				}
			case sc.Value == "":
				if out.err == "" {
					bad("failing-script-reported-as-success", "a throwing / invalid script was reported as success")
				}
			default:
				// finishes within the limit
				if out.err != "" {
					if early == 0 {
						bad("within-limit-script-failed", "a script that finishes within the limit was reported as failed")
					}
				} else if out.value != wantValue {
					if (out.nilOK || out.value == "null") && early > 0 {
						bad("timeout-reported-as-success-with-nil-value", "the watchdog fired and the call reports success with a nil value")
					} else {
						bad("wrong-value", fmt.Sprintf("expected %s", wantValue))
					}
				}
			}
			return vs
		},
		Races: func(rc sched.Race) *lib.Violation { return nil },
	}
}

func c14Scenarios(tier string) []*lib.SchedScenario {
	var scs []*lib.SchedScenario
	bound := 2
	if tier == "thorough" {
		bound = 3
	}
	confs := []c14conf{}
	for _, ctl := range []time.Duration{0, 5 * time.Millisecond, -1} {
		for _, def := range []time.Duration{10 * time.Millisecond, -1} {
			for _, en := range []bool{true, false} {
				confs = append(confs, c14conf{ctl, def, en})
			}
		}
	}
	for _, context := range []string{"nested-run", "concurrent-actions"} {
		for _, sc := range c14Scripts {
			if sc.Name != "forever" && sc.Name != "slow12ms" && sc.Name != "value" {
				continue
			}
			for _, cf := range confs {
				scs = append(scs, c14Scenario(sc, cf, context, bound))
			}
		}
	}
	for _, context := range []string{"run", "condition", "or-condition", "multi-condition", "action"} {
		for _, sc := range c14Scripts {
			if context == "condition" && sc.Name == "binding" {
				// a condition keeps a binding iff the value is non-null: same path as "value"
			}
			for _, cf := range confs {
				scs = append(scs, c14Scenario(sc, cf, context, bound))
			}
		}
	}
	return scs
}

// ---- native busy-loop family ---------------------------------------------------

// c14Native runs `while(true){<body>}` scripts with a 50 ms limit in a child
// process; violation iff the call has not returned after the deadline.
func c14Native(w *lib.Worker) {
	if w.Shard != 0 {
		return
	}
	self, _ := os.Executable()
	type res struct {
		context, body string
		ok            bool
	}
	ch := make(chan res, 16)
	n := 0
	for _, body := range []string{"", "x=1", "for(;;)", "for(;;)x=1", "do-while"} {
		for _, context := range []string{"run", "action"} {
			for attempt := 0; attempt < 3; attempt++ {
				n++
				go func(context, body string) {
					cmd := exec.Command(self, "C14", "quick", "--worker", "0/1")
					cmd.Env = append(os.Environ(), "VERIF_C14_NATIVE="+context+"|"+body, "VERIF_RESULT=", "VERIF_JOURNAL=", "VERIF_NONTRIV=")
					done := make(chan error, 1)
					if err := cmd.Start(); err != nil {
						ch <- res{context, body, true}
						return
					}
					go func() { done <- cmd.Wait() }()
					select {
					case <-done:
						ch <- res{context, body, true}
					case <-time.After(20 * time.Second):
						cmd.Process.Kill()
						<-done
						ch <- res{context, body, false}
					}
				}(context, body)
			}
		}
	}
	okRuns := map[string]int{}
	for i := 0; i < n; i++ {
		r := <-ch
		w.Eval(1)
		w.Count("native_busy_loop_runs", 1)
		if r.ok {
			okRuns[r.context+"|"+r.body]++
		} else {
			okRuns[r.context+"|"+r.body] += 0
		}
	}
	for k, ok := range okRuns {
		if ok > 0 {
			continue // returned in at least one isolated run: not a hang
		}
		p := strings.SplitN(k, "|", 2)
		context, body := p[0], p[1]
		sig := "C14/" + context + "/busy-loop-not-interrupted"
		if body == "" {
			sig = "C14/" + context + "/empty-body-busy-loop-never-polls-the-interrupt"
		}
		if body == "for(;;)" {
			sig = "C14/" + context + "/for-loop-without-test-and-body-never-polls-the-interrupt"
		}
		w.Violation(lib.Violation{Scenario: "native-busy-loop", Signature: sig,
			Summary: fmt.Sprintf("[%s] `%s` with a 50ms JavaScript timeout: the call had not returned after 20s in 3 isolated runs", context, c14LoopCode(body)),
			Replay:  map[string]interface{}{"native": true, "context": context, "body": body}})
	}
}

// c14LoopCode renders a member of the busy-loop family.
func c14LoopCode(body string) string {
	switch {
	case body == "do-while":
		return "do{}while(true)"
	case strings.HasPrefix(body, "for(;;)"):
		return "for(;;){" + strings.TrimPrefix(body, "for(;;)") + "}"
	}
	return "while(true){" + body + "}"
}

func c14NativeChild(spec string) {
	p := strings.SplitN(spec, "|", 2)
	context, body := p[0], p[1]
	core.SystemParameters.JavascriptTimeouts = true
	core.SystemParameters.DefaultJavascriptTimeout = 50 * time.Millisecond
	ctx := lib.Ctx()
	loc := lib.MustLoc(ctx, "indexed", "L", lib.MemStore(ctx))
	code := c14LoopCode(body)
	if context == "run" {
		loc.RunJavascript(ctx, code, nil, nil, nil)
	} else {
		loc.AddRule(ctx, "r", core.Map{"when": map[string]interface{}{"pattern": map[string]interface{}{"e": "?e"}}, "action": map[string]interface{}{"code": code}})
		loc.ProcessEvent(ctx, core.Map{"e": 1.0})
	}
	os.Exit(0)
}

func init() {
	lib.Register(&lib.Check{
		ID:    "C14",
		Level: "model_checking",
		Rule: "9 script families x 12 timeout settings (Control.JavascriptTimeout {0,5ms,<0} x DefaultJavascriptTimeout {10ms,<0} x JavascriptTimeouts on/off) x 4 contexts (RunJavascript, rule condition, a disjunct of a rule condition next to one that holds, rule action), plus 3 of the families started while another script runs under the same Context (nested through Env.ProcessEvent; second of two concurrent actions) where only 'the caller gets control back' is judged, each executed under the controlled scheduler with virtual time, every schedule with at most 2 deviations (3 thorough) where a deviation is a preemption or the watchdog timer landing early; plus native busy loops against a 20 s real-time deadline; " +
			"states = distinct observed outcomes, traces = schedules executed; non-trivial = distinct (scenario, outcome)",
		Assumptions: []string{
			"virtual time: code between two scheduling points takes no time; an early timer landing models slow real execution, so a finishing script may then end either way",
			"busy loops (no scheduling point) are decided by a real-time deadline 400x the configured limit, 3 isolated runs",
		},
		Budget: func(tier string) time.Duration {
			if tier == "thorough" {
				return 30 * time.Minute
			}
			return 5 * time.Minute
		},
		Run: func(w *lib.Worker) {
			if spec := os.Getenv("VERIF_C14_NATIVE"); spec != "" {
				c14NativeChild(spec)
			}
			c14Native(w)
			for i, sc := range c14Scenarios(w.Tier) {
				if i%w.NShards != w.Shard {
					continue
				}
				if w.TimeUp() {
					w.Cap("time budget reached before all scenarios were explored")
					return
				}
				w.ExploreWhole(sc)
			}
		},
		ReplayFn: func(w *lib.Worker, raw json.RawMessage) {
			if strings.Contains(string(raw), `"native"`) {
				c14Native(w)
				return
			}
			w.ReplaySched(raw, c14Scenarios("thorough"))
		},
	})
}
