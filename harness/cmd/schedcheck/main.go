// schedcheck: schedule-exploration checks (engine SCHED), built against the
// level-2 overlay (cooperative scheduler hooks for sync, go, channels, time).
package main

import "verifharness/lib"

func main() { lib.Main() }

func diffSets(exp, got []string) (missing, extra []string) { return lib.DiffSets(exp, got) }
