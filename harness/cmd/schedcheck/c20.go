package main

// C20 — configured limits are enforced and recover (concurrent clauses).
//
// Engine SCHED:
//   capacity  two/three concurrent adds at MaxFacts-1 on one location: after the
//             adds the location holds at most MaxFacts facts+rules;
//   breaker   2-3 threads calling OutboundBreaker.Do at one instant: admissions
//             <= limit;
//   throttle  3-4 submitters on a Throttle whose breaker is closed for the whole
//             window (limit 1, already used), pendingLimit in {0,1}, 3 attempts:
//             no submitted function runs more than once; at no instant are more
//             than pendingLimit+1 submissions waiting (computed from the
//             call/return intervals of the submissions that were not refused);
//             Pending() read by an observer thread at an arbitrary point is within
//             [0, pendingLimit+1]; Pending() is 0 at the end.

import (
	"encoding/json"
	"fmt"
	"strings"
	"time"

	"github.com/Comcast/rulio/core"
	"github.com/Comcast/rulio/verifrt/sched"
	vsync "github.com/Comcast/rulio/verifrt/vsync"
	"verifharness/lib"
)

func c20Races(name string) func(rc sched.Race) *lib.Violation {
	return func(rc sched.Race) *lib.Violation {
		return &lib.Violation{Signature: "C20/data-race:" + rc.Loc + ":" + rc.SiteA + "~" + rc.SiteB, Summary: fmt.Sprintf("%s: %s data race on %s between %s and %s", name, rc.Kinds, rc.Loc, rc.SiteA, rc.SiteB)}
	}
}

func c20Basic(r *lib.Run, name string) []*lib.Violation {
	if r.Exec.Deadlock != "" {
		return []*lib.Violation{{Signature: "C20/deadlock", Summary: name + ": deadlock: " + r.Exec.Deadlock}}
	}
	if r.Exec.Panic != "" {
		return []*lib.Violation{{Signature: "C20/panic:" + c12PanicClass(r.Exec.Panic), Summary: name + ": " + firstLines(r.Exec.Panic, 6)}}
	}
	return nil
}

func c20Capacity(kind string, max, clients int, bound int) *lib.SchedScenario {
	name := fmt.Sprintf("C20/capacity/%s/MaxFacts=%d/%d concurrent adds at MaxFacts-1", kind, max, clients)
	return &lib.SchedScenario{
		Name: name, Bound: bound, NoEarlyTimers: true,
		Body: func(r *lib.Run) {
			ctx := lib.Ctx()
			loc := lib.MustLoc(ctx, kind, "L", lib.MemStore(ctx))
			c := lib.QuietControl()
			c.MaxFacts = max
			loc.SetControl(c)
			for i := 0; i < max-1; i++ {
				if _, err := loc.AddFact(ctx, fmt.Sprintf("pre%d", i), core.Map{"k": "v"}); err != nil {
					panic(err)
				}
			}
			var wg vsync.WaitGroup
			wg.Add(clients)
			oks := make([]bool, clients)
			for i := 0; i < clients; i++ {
				i := i
				r.Go(func() {
					cctx := lib.Ctx()
					var err error
					if i == 1 {
						_, err = loc.AddRule(cctx, fmt.Sprintf("n%d", i), core.Map(lib.JM(c12RuleJS)))
					} else {
						_, err = loc.AddFact(cctx, fmt.Sprintf("n%d", i), core.Map{"k": "v"})
					}
					oks[i] = err == nil
					wg.Done()
				})
			}
			wg.Wait()
			n, _ := loc.StateSize(ctx)
			r.Data["size"] = n
			r.Record("size=%d oks=%v", n, oks)
		},
		Check: func(r *lib.Run) []*lib.Violation {
			if vs := c20Basic(r, name); vs != nil {
				return vs
			}
			if n, _ := r.Data["size"].(int); n > max {
				return []*lib.Violation{{Signature: "C20/" + kind + "/concurrent-adds-exceed-capacity", Summary: fmt.Sprintf("%s: the location ends with %d facts+rules", name, n), Expected: max, Observed: n}}
			}
			return nil
		},
		Races: c20Races(name),
	}
}

func c20Breaker(limit int64, threads int, bound int) *lib.SchedScenario {
	name := fmt.Sprintf("C20/breaker/limit=%d/%d threads calling Do at one instant", limit, threads)
	return &lib.SchedScenario{
		Name: name, Bound: bound, NoEarlyTimers: true,
		Body: func(r *lib.Run) {
			b, err := core.NewOutboundBreaker(limit, time.Second)
			if err != nil {
				panic(err)
			}
			var wg vsync.WaitGroup
			wg.Add(threads)
			adm := make([]bool, threads)
			for i := 0; i < threads; i++ {
				i := i
				r.Go(func() {
					adm[i], _ = b.Do(nil)
					wg.Done()
				})
			}
			wg.Wait()
			n := 0
			for _, a := range adm {
				if a {
					n++
				}
			}
			r.Data["admitted"] = n
			r.Record("admitted=%d", n)
		},
		Check: func(r *lib.Run) []*lib.Violation {
			if vs := c20Basic(r, name); vs != nil {
				return vs
			}
			if n, _ := r.Data["admitted"].(int); int64(n) > limit {
				return []*lib.Violation{{Signature: "C20/breaker/concurrent-callers-exceed-limit", Summary: fmt.Sprintf("%s: %d admitted", name, n), Expected: limit, Observed: n}}
			}
			return nil
		},
		Races: c20Races(name),
	}
}

type c20sub struct {
	call, ret int
	err       error
	runs      int
}

func c20Throttle(pendingLimit, submitters int, bound int) *lib.SchedScenario {
	name := fmt.Sprintf("C20/throttle/pendingLimit=%d/%d submitters, breaker closed", pendingLimit, submitters)
	return &lib.SchedScenario{
		Name: name, Bound: bound, MaxSteps: 100000, Horizon: int64(5 * time.Second),
		Body: func(r *lib.Run) {
			b, err := core.NewOutboundBreaker(1, time.Second)
			if err != nil {
				panic(err)
			}
			b.Do(nil) // the window is used up: the breaker refuses for the next second
			th, err := core.NewThrottle(3, pendingLimit, 300*time.Millisecond, b)
			if err != nil {
				panic(err)
			}
			subs := make([]*c20sub, submitters)
			var wg vsync.WaitGroup
			wg.Add(submitters + 1)
			clock := 0
			for i := 0; i < submitters; i++ {
				i := i
				subs[i] = &c20sub{}
				r.Go(func() {
					s := subs[i]
					clock++
					s.call = clock
					s.err = th.Submit(func() error { s.runs++; return nil })
					clock++
					s.ret = clock
					wg.Done()
				})
			}
			obs := -100
			r.Go(func() {
				obs, _ = th.Pending()
				wg.Done()
			})
			wg.Wait()
			end, _ := th.Pending()
			r.Data["subs"] = subs
			r.Data["obs"] = obs
			r.Data["end"] = end
			var xs []string
			for _, s := range subs {
				xs = append(xs, fmt.Sprintf("%v/%d", s.err, s.runs))
			}
			r.Record("subs=%v observed=%d end=%d", xs, obs, end)
		},
		Check: func(r *lib.Run) []*lib.Violation {
			if vs := c20Basic(r, name); vs != nil {
				return vs
			}
			if r.Exec.CapHit {
				return nil
			}
			subs, _ := r.Data["subs"].([]*c20sub)
			obs, _ := r.Data["obs"].(int)
			end, _ := r.Data["end"].(int)
			var vs []*lib.Violation
			for i, s := range subs {
				if s.runs > 1 {
					vs = append(vs, &lib.Violation{Signature: "C20/throttle/function-ran-more-than-once", Summary: fmt.Sprintf("%s: submission %d ran %d times", name, i, s.runs)})
				}
				if s.err == core.ThrottleOverflow && s.runs > 0 {
					vs = append(vs, &lib.Violation{Signature: "C20/throttle/refused-submission-ran", Summary: fmt.Sprintf("%s: submission %d was refused (overflow) but its function ran", name, i)})
				}
			}
			// maximum number of simultaneously waiting (not refused) submissions
			maxWait := 0
			for _, a := range subs {
				if a.err == core.ThrottleOverflow {
					continue
				}
				n := 0
				for _, b := range subs {
					if b.err == core.ThrottleOverflow {
						continue
					}
					if b.call <= a.call && a.call < b.ret {
						n++
					}
				}
				if n > maxWait {
					maxWait = n
				}
			}
			if maxWait > pendingLimit+1 {
				vs = append(vs, &lib.Violation{Signature: "C20/throttle/more-than-pendingLimit+1-submissions-waiting", Summary: fmt.Sprintf("%s: %d submissions were waiting at the same time (pending limit %d)", name, maxWait, pendingLimit), Expected: pendingLimit + 1, Observed: maxWait})
			}
			if obs != -100 && (obs < 0 || obs > pendingLimit+1) {
				vs = append(vs, &lib.Violation{Signature: "C20/throttle/pending-count-out-of-range", Summary: fmt.Sprintf("%s: Pending() returned %d (allowed 0..%d)", name, obs, pendingLimit+1), Observed: obs})
			}
			if end != 0 {
				vs = append(vs, &lib.Violation{Signature: "C20/throttle/pending-count-not-zero-when-idle", Summary: fmt.Sprintf("%s: Pending() is %d after every submission returned", name, end), Expected: 0, Observed: end})
			}
			return vs
		},
		Races: c20Races(name),
	}
}

func c20SchedScenarios(tier string) []*lib.SchedScenario {
	var scs []*lib.SchedScenario
	bound := 2
	if tier == "thorough" {
		bound = 3
	}
	for _, kind := range []string{"indexed", "linear"} {
		for _, max := range []int{1, 2, 3} {
			scs = append(scs, c20Capacity(kind, max, 2, bound))
		}
		scs = append(scs, c20Capacity(kind, 2, 3, bound))
	}
	for _, limit := range []int64{1, 2} {
		scs = append(scs, c20Breaker(limit, 2, bound), c20Breaker(limit, 3, bound))
	}
	for _, pl := range []int{0, 1} {
		scs = append(scs, c20Throttle(pl, 3, bound))
		if tier == "thorough" || pl == 1 {
			scs = append(scs, c20Throttle(pl, 4, bound))
		}
	}
	return scs
}

func init() {
	lib.Register(&lib.Check{
		ID:    "C20",
		Level: "model_checking",
		Rule: "schedule exploration (deviation bound 2 quick / 3 thorough): 2-3 concurrent adds at MaxFacts-1 (MaxFacts 1..3, both states), 2-3 threads calling OutboundBreaker.Do at one instant (limit 1..2), 3-4 submitters on a Throttle with a closed breaker (pendingLimit 0..1, 3 attempts, 300ms pause in virtual time) plus an observer reading Pending() at an arbitrary point; " +
			"states = distinct observed outcomes, traces = schedules executed",
		Assumptions: []string{
			"'waiting' submissions are those that were not refused with ThrottleOverflow, counted over their call/return intervals",
		},
		Budget: func(tier string) time.Duration {
			if tier == "thorough" {
				return 20 * time.Minute
			}
			return 4 * time.Minute
		},
		Run: func(w *lib.Worker) {
			for i, sc := range c20SchedScenarios(w.Tier) {
				if i%w.NShards != w.Shard {
					continue
				}
				if w.TimeUp() {
					w.Cap("time budget reached before all scenarios were explored")
					return
				}
				w.ExploreWhole(sc)
			}
		},
		ReplayFn: func(w *lib.Worker, raw json.RawMessage) { w.ReplaySched(raw, c20SchedScenarios("thorough")) },
	})
	_ = strings.Join
}
