package main

// C15 — scheduled rules, real built-in cron part.
//
// Engine SCHED with virtual time: a sys.System wired to the REAL
// cron.InternalCron over a real cron.Cron (loop goroutine, firing goroutines,
// JavaScript action goroutines), one client thread that runs a short history
// with virtual sleeps in between.  Rule evaluations are observed through the
// application hook ProcessBindings (location, rule id, virtual instant).
// Histories: two locations sharing rule id r (remove one / one-shot in one),
// replace by an ordinary rule, overwrite by a fact, cascade delete, clear,
// one-shot, restart with a fresh cron.  Oracle per schedule: a rule that ended
// is not evaluated at any instant after the ending call returned; a live
// recurring rule is evaluated in its own location after that instant; a
// one-shot rule is evaluated exactly once and is gone afterwards; the cron's
// pending count equals the number of live scheduled rules at the end.
// This part binds the recording-Cronner model used by seqcheck's C15 BFS to
// the real built-in cron.

import (
	"encoding/json"
	"fmt"
	"time"

	"github.com/Comcast/rulio/core"
	"github.com/Comcast/rulio/cron"
	"github.com/Comcast/rulio/sys"
	"github.com/Comcast/rulio/verifrt/sched"
	vtime "github.com/Comcast/rulio/verifrt/vtime"
	"github.com/robertkrimen/otto"
	"verifharness/lib"
)

type c15eval struct {
	loc, id string
	at      time.Duration
}

type c15env struct {
	kind  string
	start time.Time
	store core.Storage
	cr    *cron.Cron
	sys   *sys.System
	evals []c15eval
	marks map[string]time.Duration
}

// c15app observes rule evaluations.
type c15app struct{ e *c15env }

func (a c15app) GenerateHeaders(ctx *core.Context) map[string]string { return nil }
func (a c15app) ProcessBindings(ctx *core.Context, bs core.Bindings) core.Bindings {
	loc, _ := bs["?location"].(string)
	id, _ := bs["?ruleId"].(string)
	a.e.evals = append(a.e.evals, c15eval{loc, id, vtime.Now().Sub(a.e.start)})
	return bs
}
func (a c15app) UpdateJavascriptRuntime(ctx *core.Context, runtime *otto.Otto) error { return nil }
func (a c15app) ProcessQuery(ctx *core.Context, raw map[string]interface{}, query core.Query) core.Query {
	return query
}

func (e *c15env) ctx() *core.Context {
	ctx := lib.Ctx()
	ctx.App = c15app{e}
	return ctx
}

func (e *c15env) boot() {
	ctx := e.ctx()
	cr, err := cron.NewCron(nil, 300*time.Millisecond, "verif", 1000)
	if err != nil {
		panic(err)
	}
	cr.Start(ctx)
	e.cr = cr
	conf := sys.SystemConfig{Storage: "memory", UnindexedState: e.kind == "linear"}
	cont := sys.SystemControl{LocationTTL: sys.Forever, DefaultLocControl: lib.QuietControl(), CachePending: true}
	s, err := sys.NewSystem(ctx, conf, cont, &cron.InternalCron{Cron: cr})
	if err != nil {
		panic(err)
	}
	s.VerifSetStorage(e.store)
	e.sys = s
}

func (e *c15env) since() time.Duration { return vtime.Now().Sub(e.start) }
func (e *c15env) mark(name string)     { e.marks[name] = e.since() }

const c15Every = "* * * * * * *"

func (e *c15env) addRule(loc, schedule string, extra string) {
	rule := `{"action":{"code":"1"}` + extra
	if schedule != "" {
		rule += `,"schedule":"` + schedule + `"`
	} else {
		rule += `,"when":{"pattern":{"e":"?e"}}`
	}
	rule += "}"
	if _, err := e.sys.AddRule(e.ctx(), loc, "r", rule); err != nil {
		panic(err)
	}
}

func (e *c15env) count(loc string, after time.Duration) int {
	n := 0
	for _, ev := range e.evals {
		if ev.loc == loc && ev.id == "r" && ev.at > after {
			n++
		}
	}
	return n
}

type c15hist struct {
	Name string
	Run  func(e *c15env)
	// Expect returns "signature:summary" strings
	Expect func(e *c15env) []string
	Live   int // scheduled rules alive at the end
}

func c15Hists() []c15hist {
	must := func(err error) {
		if err != nil {
			panic(err)
		}
	}
	noneAfter := func(e *c15env, loc, mark, what string) []string {
		if n := e.count(loc, e.marks[mark]); n > 0 {
			return []string{fmt.Sprintf("rule-evaluated-after-it-%s:rule r of %s was evaluated %d times after the call that %s it returned at +%v (evaluations %v)", what, loc, n, what, e.marks[mark], e.evals)}
		}
		return nil
	}
	someAfter := func(e *c15env, loc, mark, ctxt string) []string {
		if n := e.count(loc, e.marks[mark]); n == 0 {
			return []string{fmt.Sprintf("live-scheduled-rule-not-evaluated:%s:rule r of %s is scheduled every second and alive, but was not evaluated in the %v after +%v (evaluations %v)", ctxt, loc, 2500*time.Millisecond, e.marks[mark], e.evals)}
		}
		return nil
	}
	ended := func(what string, end func(e *c15env)) c15hist {
		return c15hist{Name: what, Live: 0,
			Run: func(e *c15env) {
				e.addRule("A", c15Every, "")
				vtime.Sleep(1500 * time.Millisecond)
				end(e)
				e.mark("end")
				vtime.Sleep(2700 * time.Millisecond)
			},
			Expect: func(e *c15env) []string {
				bad := noneAfter(e, "A", "end", what)
				if e.count("A", -1) == 0 {
					bad = append(bad, "live-scheduled-rule-not-evaluated:before:rule r of A was never evaluated while it was alive")
				}
				return bad
			}}
	}
	return []c15hist{
		{Name: "same-id-in-two-locations-remove-one", Live: 1,
			Run: func(e *c15env) {
				e.addRule("A", c15Every, "")
				e.addRule("B", c15Every, "")
				vtime.Sleep(1500 * time.Millisecond)
				e.mark("mid")
				_, err := e.sys.RemRule(e.ctx(), "A", "r")
				must(err)
				e.mark("end")
				vtime.Sleep(2700 * time.Millisecond)
			},
			Expect: func(e *c15env) []string {
				bad := noneAfter(e, "A", "end", "removed")
				bad = append(bad, someAfter(e, "B", "end", "same-id-removed-in-another-location")...)
				if e.count("A", -1)-e.count("A", e.marks["mid"]) == 0 {
					bad = append(bad, "live-scheduled-rule-not-evaluated:same-id-scheduled-in-another-location:rule r of A was not evaluated in its first 1.5s although scheduled every second (rule r of B was scheduled after it)")
				}
				return bad
			}},
		{Name: "same-id-one-shot-and-recurring", Live: 1,
			Run: func(e *c15env) {
				e.addRule("B", c15Every, "")
				e.addRule("A", "+1s", "")
				vtime.Sleep(1500 * time.Millisecond)
				e.mark("end")
				vtime.Sleep(2700 * time.Millisecond)
			},
			Expect: func(e *c15env) []string {
				var bad []string
				if n := e.count("A", -1); n != 1 {
					bad = append(bad, fmt.Sprintf("one-shot-rule-evaluated-%d-times:the one-shot rule r of A was evaluated %d times (evaluations %v)", n, n, e.evals))
				}
				bad = append(bad, someAfter(e, "B", "end", "same-id-one-shot-ran-in-another-location")...)
				if rs, _ := e.sys.ListRules(e.ctx(), "A", false); len(rs) != 0 {
					bad = append(bad, fmt.Sprintf("one-shot-rule-still-stored-after-it-ran:rules of A: %v", rs))
				}
				return bad
			}},
		ended("replaced-by-an-ordinary-rule", func(e *c15env) { e.addRule("A", "", "") }),
		ended("overwritten-by-a-fact", func(e *c15env) {
			_, err := e.sys.AddFact(e.ctx(), "A", "r", `{"plain":"fact"}`)
			must(err)
		}),
		ended("removed", func(e *c15env) {
			_, err := e.sys.RemRule(e.ctx(), "A", "r")
			must(err)
		}),
		ended("cleared-with-its-location", func(e *c15env) { must(e.sys.ClearLocation(e.ctx(), "A")) }),
		{Name: "cascade-deleted", Live: 0,
			Run: func(e *c15env) {
				_, err := e.sys.AddFact(e.ctx(), "A", "c", `{"have":"c"}`)
				must(err)
				e.addRule("A", c15Every, `,"deleteWith":["c"]`)
				vtime.Sleep(1500 * time.Millisecond)
				_, err = e.sys.RemFact(e.ctx(), "A", "c")
				must(err)
				e.mark("end")
				vtime.Sleep(2700 * time.Millisecond)
			},
			Expect: func(e *c15env) []string { return noneAfter(e, "A", "end", "cascade-deleted") }},
		{Name: "rescheduled-by-its-own-action", Live: 1,
			// the rule replaces itself, under its own id, with a rule on a far-away
			// schedule WHILE its tick is running: the replacement must win
			Run: func(e *c15env) {
				rule := `{"schedule":"` + c15Every + `","action":{"code":"Env.AddRule('r', {schedule: '0 0 0 1 1 * 2099', action: {code: '2'}});"}}`
				_, err := e.sys.AddRule(e.ctx(), "A", "r", rule)
				must(err)
				vtime.Sleep(1500 * time.Millisecond)
				e.mark("end")
				vtime.Sleep(2700 * time.Millisecond)
			},
			Expect: func(e *c15env) []string {
				bad := noneAfter(e, "A", "end", "rescheduled")
				if e.count("A", -1) == 0 {
					bad = append(bad, "live-scheduled-rule-not-evaluated:before:rule r of A was never evaluated while it was alive")
				}
				return bad
			}},
		{Name: "restart-with-a-fresh-cron", Live: 1,
			Run: func(e *c15env) {
				e.addRule("A", c15Every, "")
				vtime.Sleep(1500 * time.Millisecond)
				e.cr.Kill(e.ctx())
				e.boot()
				_, err := e.sys.GetLocation(e.ctx(), "A")
				must(err)
				e.mark("end")
				vtime.Sleep(2700 * time.Millisecond)
			},
			Expect: func(e *c15env) []string { return someAfter(e, "A", "end", "after-restart") }},
	}
}

func c15SchedScenario(kind string, h c15hist, bound int) *lib.SchedScenario {
	name := fmt.Sprintf("C15/%s/real-builtin-cron/%s", kind, h.Name)
	return &lib.SchedScenario{
		Name: name, Bound: bound, MaxSteps: 400000, Horizon: int64(20 * time.Second), NoEarlyTimers: true,
		Body: func(r *lib.Run) {
			e := &c15env{kind: kind, start: vtime.Now(), marks: map[string]time.Duration{}}
			e.store = lib.MemStore(lib.Ctx())
			r.Data["env"] = e
			e.boot()
			h.Run(e)
			r.Data["pending"] = e.cr.PendingCount()
			r.Data["expect"] = h.Expect(e)
			e.cr.Kill(e.ctx())
			r.Record("evals=%v pending=%d", e.evals, r.Data["pending"])
		},
		Check: func(r *lib.Run) []*lib.Violation {
			pre := "C15/" + kind + "/real-builtin-cron/"
			if r.Exec.Deadlock != "" {
				return []*lib.Violation{{Signature: pre + "deadlock", Summary: name + ": deadlock: " + r.Exec.Deadlock}}
			}
			if r.Exec.Panic != "" {
				return []*lib.Violation{{Signature: pre + "panic:" + c12PanicClass(r.Exec.Panic), Summary: name + ": " + firstLines(r.Exec.Panic, 8)}}
			}
			if r.Exec.CapHit {
				return nil
			}
			var vs []*lib.Violation
			bad, _ := r.Data["expect"].([]string)
			for _, b := range bad {
				i := 0
				for i < len(b) && b[i] != ':' {
					i++
				}
				sig, sum := b[:i], b[i+1:]
				// a second ':'-separated context word belongs to the signature
				if j := indexByte(sum, ':'); j > 0 && j < 60 && !containsSpace(sum[:j]) {
					sig, sum = sig+":"+sum[:j], sum[j+1:]
				}
				vs = append(vs, &lib.Violation{Signature: pre + sig, Summary: name + ": " + sum})
			}
			if p, _ := r.Data["pending"].(int); p != h.Live {
				vs = append(vs, &lib.Violation{Signature: pre + "pending-jobs-differ-from-live-scheduled-rules:" + h.Name, Summary: fmt.Sprintf("%s: the cron holds %d pending jobs at the end, %d scheduled rules are alive", name, p, h.Live), Expected: h.Live, Observed: p})
			}
			return vs
		},
		Races: func(rc sched.Race) *lib.Violation {
			return &lib.Violation{Signature: "C15/" + kind + "/real-builtin-cron/data-race:" + rc.Loc + ":" + rc.SiteA + "~" + rc.SiteB, Summary: fmt.Sprintf("%s: %s data race on %s between %s and %s", name, rc.Kinds, rc.Loc, rc.SiteA, rc.SiteB)}
		},
	}
}

func indexByte(s string, c byte) int {
	for i := 0; i < len(s); i++ {
		if s[i] == c {
			return i
		}
	}
	return -1
}

func containsSpace(s string) bool { return indexByte(s, ' ') >= 0 }

func c15SchedScenarios(tier string) []*lib.SchedScenario {
	bound := 2
	if tier == "thorough" {
		bound = 3
	}
	var scs []*lib.SchedScenario
	for _, kind := range []string{"indexed", "linear"} {
		for _, h := range c15Hists() {
			scs = append(scs, c15SchedScenario(kind, h, bound))
		}
	}
	return scs
}

func init() {
	lib.Register(&lib.Check{
		ID:    "C15",
		Level: "model_checking",
		Rule: "schedule exploration with virtual time (deviation bound 2 quick / 3 thorough) of a sys.System wired to the real cron.InternalCron over a real cron.Cron, one client thread running 9 short histories (a rule that reschedules itself from its own action while its tick runs; same id in two locations: remove one / one-shot in one; replaced by an ordinary rule; overwritten by a fact; removed; cleared; cascade-deleted; restart with a fresh cron), both states; rule evaluations observed through the App.ProcessBindings hook; " +
			"states = distinct observed outcomes, traces = schedules executed",
		Assumptions: []string{
			"an evaluation counts as 'after' a call only if its virtual instant is strictly later than the instant the call returned",
			"timers land on time in this part (early landings are C16's subject)",
		},
		Budget: func(tier string) time.Duration {
			if tier == "thorough" {
				return 25 * time.Minute
			}
			return 4 * time.Minute
		},
		Run: func(w *lib.Worker) {
			for i, sc := range c15SchedScenarios(w.Tier) {
				if i%w.NShards != w.Shard {
					continue
				}
				if w.TimeUp() {
					w.Cap("time budget reached before all scenarios were explored")
					return
				}
				w.ExploreWhole(sc)
			}
		},
		ReplayFn: func(w *lib.Worker, raw json.RawMessage) { w.ReplaySched(raw, c15SchedScenarios("thorough")) },
	})
}
