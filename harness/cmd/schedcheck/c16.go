package main

// C16 — cron services fire each job when due, once, and never after removal
// (in-memory cron.Cron; the Bolt-backed crolt service is driven by c16crolt).
//
// Engine SCHED with virtual time: the Cron's loop goroutine, its per-firing
// goroutines and 1-2 client threads issuing Add (one-shot "+d", recurring
// every second), Rem, replace (same id), Suspend/Resume/Pause; horizon 4
// virtual seconds; every schedule with at most 2 deviations (3 thorough), a
// timer landing early being one.  Oracle: every callback happens at virtual
// time >= the job's due time; a one-shot that was not removed fires exactly
// once; a recurring job at most once per elapsed second; at most one pending
// entry per id (read by an observer at an arbitrary point and at the end); a
// job whose Rem returned fires never again (one-shot: if Rem returned before
// the due time; recurring: never after Rem returned); suspension only delays.

import (
	"encoding/json"
	"fmt"
	"sort"
	"strings"
	"time"

	"github.com/Comcast/rulio/core"
	"github.com/Comcast/rulio/cron"
	"github.com/Comcast/rulio/verifrt/sched"
	vsync "github.com/Comcast/rulio/verifrt/vsync"
	vtime "github.com/Comcast/rulio/verifrt/vtime"
	"verifharness/lib"
)

type c16fire struct {
	id string
	at time.Duration // since start
}

type c16env struct {
	r      *lib.Run
	ctx    *core.Context
	c      *cron.Cron
	start  time.Time
	fires  []c16fire
	remAt  map[string]time.Duration // when Rem(id) returned
	addAt  map[string]time.Duration
	adds   map[string][]time.Duration // per id: the virtual instants at which Add was CALLED
	addRet map[string][]time.Duration // per id: the virtual instants at which those Adds RETURNED (call order)
	maxDup int
	// pendingAtEnd: PendingCount when the observation ends
	pendingAtEnd int
}

func (e *c16env) since() time.Duration { return vtime.Now().Sub(e.start) }

func (e *c16env) fn(id string) func(time.Time) error {
	return func(time.Time) error {
		e.fires = append(e.fires, c16fire{id, e.since()})
		return nil
	}
}

// addAs is add with a callback that records under another name (to tell a
// replacement from what it replaces).
func (e *c16env) addAs(id, schedule, tag string) {
	e.adds[id] = append(e.adds[id], e.since())
	slot := len(e.adds[id]) - 1
	e.addRet[id] = append(e.addRet[id], -1)
	if err := e.c.Add(e.ctx, id, schedule, e.fn(tag)); err != nil {
		panic(err)
	}
	e.addAt[id] = e.since()
	e.addRet[id][slot] = e.since()
}

// addSlow is addAs with a callback that takes d of virtual time (its firing is
// recorded when it starts).
func (e *c16env) addSlow(id, schedule, tag string, d time.Duration) {
	e.adds[id] = append(e.adds[id], e.since())
	slot := len(e.adds[id]) - 1
	e.addRet[id] = append(e.addRet[id], -1)
	f := e.fn(tag)
	if err := e.c.Add(e.ctx, id, schedule, func(t time.Time) error { f(t); vtime.Sleep(d); return nil }); err != nil {
		panic(err)
	}
	e.addAt[id] = e.since()
	e.addRet[id][slot] = e.since()
}

func (e *c16env) add(id, schedule string) {
	e.adds[id] = append(e.adds[id], e.since())
	slot := len(e.adds[id]) - 1
	e.addRet[id] = append(e.addRet[id], -1)
	if err := e.c.Add(e.ctx, id, schedule, e.fn(id)); err != nil {
		panic(err)
	}
	e.addAt[id] = e.since()
	e.addRet[id][slot] = e.since()
}

func (e *c16env) rem(id string) {
	e.c.Rem(e.ctx, id)
	e.remAt[id] = e.since()
}

// observe: at most one pending entry per id
func (e *c16env) observe() {
	e.c.Lock()
	seen := map[string]int{}
	sorted := true
	for i, j := range e.c.Timeline {
		seen[j.Id]++
		if i > 0 && j.Next.Before(e.c.Timeline[i-1].Next) {
			sorted = false
		}
	}
	e.c.Unlock()
	for _, n := range seen {
		if n > e.maxDup {
			e.maxDup = n
		}
	}
	if !sorted {
		e.maxDup = 99
	}
}

type c16scn struct {
	Name    string
	Clients []func(e *c16env)
	// Expect computes violations from the environment after the run
	Expect func(e *c16env) []string
}

// c16Totals: how long a scenario is observed (default 4 virtual seconds).
var c16Totals = map[string]time.Duration{"slow-callbacks-replace-then-rem": 8 * time.Second}

func countFires(e *c16env, id string) (n int, times []time.Duration) {
	for _, f := range e.fires {
		if f.id == id {
			n++
			times = append(times, f.at)
		}
	}
	return
}

func c16Scns() []c16scn {
	once := func(id string, due time.Duration) func(e *c16env) []string {
		return func(e *c16env) []string {
			var bad []string
			n, ts := countFires(e, id)
			if n != 1 {
				bad = append(bad, fmt.Sprintf("one-shot-fired-%d-times:%s fired %d times %v", n, id, n, ts))
			}
			for _, t := range ts {
				if t < due {
					bad = append(bad, fmt.Sprintf("fired-before-due:%s fired at +%v, due +%v", id, t, due))
				}
			}
			return bad
		}
	}
	return []c16scn{
		{"two-one-shots", []func(e *c16env){
			func(e *c16env) { e.add("j1", "+500ms"); e.add("j2", "+1s") },
		}, func(e *c16env) []string {
			return append(once("j1", 500*time.Millisecond)(e), once("j2", time.Second)(e)...)
		}},
		{"concurrent-replace-same-id", []func(e *c16env){
			func(e *c16env) { e.add("j1", "+1s") },
			func(e *c16env) { e.add("j1", "+1s") },
		}, func(e *c16env) []string {
			var bad []string
			n, ts := countFires(e, "j1")
			// both Adds name a job due one second after the call; if the later Add was called
			// before the earlier job was due, it replaced it: exactly one firing.  Otherwise
			// (the clock ran ahead between the two calls) the first may legitimately have fired.
			calls, rets := e.adds["j1"], e.addRet["j1"]
			// "replaced" = each Add had RETURNED before the other one's job was due
			replaced := len(calls) == 2 && rets[1] >= 0 && rets[0] >= 0 && rets[1] < calls[0]+time.Second && rets[0] < calls[1]+time.Second
			if (replaced && n != 1) || n < 1 || n > 2 {
				bad = append(bad, fmt.Sprintf("replaced-job-fired-%d-times:j1 (Add called at %v, each due +1s) fired %d times %v", n, calls, n, ts))
			}
			return bad
		}},
		{"add-then-rem-before-due", []func(e *c16env){
			func(e *c16env) { e.add("j1", "+1s"); e.rem("j1") },
			func(e *c16env) { e.add("j2", "+500ms") },
		}, func(e *c16env) []string {
			var bad []string
			due := e.adds["j1"][0] + time.Second
			if n, ts := countFires(e, "j1"); n != 0 && e.remAt["j1"] < due {
				bad = append(bad, fmt.Sprintf("removed-job-fired:j1 was removed at +%v (due +%v) but fired %v", e.remAt["j1"], due, ts))
			}
			return append(bad, once("j2", e.adds["j2"][0]+500*time.Millisecond)(e)...)
		}},
		{"rem-the-head-job-then-a-later-job-is-due", []func(e *c16env){
			func(e *c16env) { e.add("j1", "+1s"); e.add("j2", "+1500ms"); e.rem("j1") },
		}, func(e *c16env) []string {
			var bad []string
			due := e.adds["j1"][0] + time.Second
			if n, ts := countFires(e, "j1"); n != 0 && e.remAt["j1"] < due {
				bad = append(bad, fmt.Sprintf("removed-job-fired:j1 was removed at +%v (due +%v) but fired %v", e.remAt["j1"], due, ts))
			}
			return append(bad, once("j2", e.adds["j2"][0]+1500*time.Millisecond)(e)...)
		}},
		{"concurrent-add-and-rem", []func(e *c16env){
			func(e *c16env) { e.add("j1", "+1s") },
			func(e *c16env) { vtime.Sleep(200 * time.Millisecond); e.rem("j1") },
		}, func(e *c16env) []string {
			var bad []string
			due := e.adds["j1"][0] + time.Second
			if n, ts := countFires(e, "j1"); n != 0 && e.remAt["j1"] < due {
				bad = append(bad, fmt.Sprintf("removed-job-fired:j1 was removed at +%v (due +%v) but fired %v", e.remAt["j1"], due, ts))
			}
			return bad
		}},
		{"recurring-then-rem", []func(e *c16env){
			func(e *c16env) { e.add("j1", "* * * * * * *") },
			func(e *c16env) { vtime.Sleep(2200 * time.Millisecond); e.rem("j1") },
		}, func(e *c16env) []string {
			var bad []string
			n, ts := countFires(e, "j1")
			if n < 1 {
				bad = append(bad, "recurring-job-never-fired:j1 never fired in 2.2s")
			}
			persec := map[int]int{}
			after := 0
			for _, t := range ts {
				persec[int(t/time.Second)]++
				if t > e.remAt["j1"] {
					after++
				}
			}
			// one occurrence may have been dispatched before Rem returned and run its
			// (delayed) callback afterwards; a second one was scheduled after the removal
			if after > 1 {
				bad = append(bad, fmt.Sprintf("removed-recurring-job-fired-again:j1 fired %d times after Rem returned at +%v (at most the one occurrence already in flight may) %v", after, e.remAt["j1"], ts))
			}
			for s, k := range persec {
				if k > 1 {
					bad = append(bad, fmt.Sprintf("recurring-job-fired-twice-per-occurrence:j1 fired %d times in second %d", k, s))
				}
			}
			return bad
		}},
		{"suspend-resume-only-delays", []func(e *c16env){
			func(e *c16env) {
				e.add("j1", "+500ms")
				e.c.Suspend(e.ctx)
				vtime.Sleep(time.Second)
				e.c.Resume(e.ctx)
			},
		}, once("j1", 500*time.Millisecond)},
		{"pause-only-delays", []func(e *c16env){
			func(e *c16env) { e.add("j1", "+500ms"); e.c.Pause(e.ctx) },
			func(e *c16env) { e.add("j2", "+700ms") },
		}, func(e *c16env) []string {
			return append(once("j1", 500*time.Millisecond)(e), once("j2", 700*time.Millisecond)(e)...)
		}},
		{"slow-callbacks-replace-then-rem", []func(e *c16env){
			func(e *c16env) {
				// every callback outlasts the period: the replaced job's function is still
				// running when its replacement fires, and the Rem arrives while the
				// replacement's function runs
				e.addSlow("j1", "* * * * * * *", "j1-first", 1500*time.Millisecond)
				vtime.Sleep(1200 * time.Millisecond)
				e.addSlow("j1", "* * * * * * *", "j1-second", 1500*time.Millisecond)
				vtime.Sleep(1500 * time.Millisecond)
				e.rem("j1")
			},
		}, func(e *c16env) []string {
			var bad []string
			for _, tag := range []string{"j1-first", "j1-second"} {
				_, ts := countFires(e, tag)
				after := 0
				for _, t := range ts {
					if t > e.remAt["j1"] {
						after++
					}
				}
				if after > 1 {
					bad = append(bad, fmt.Sprintf("removed-recurring-job-fired-again:%s fired %d times after Rem returned at +%v %v", tag, after, e.remAt["j1"], ts))
				}
			}
			if e.pendingAtEnd != 0 {
				bad = append(bad, fmt.Sprintf("removed-job-still-pending:%d jobs are pending %v after the only id was removed", e.pendingAtEnd, 8*time.Second-e.remAt["j1"]))
			}
			return bad
		}},
		{"replace-recurring-by-one-shot", []func(e *c16env){
			func(e *c16env) {
				e.add("j1", "* * * * * * *")
				vtime.Sleep(1500 * time.Millisecond)
				e.addAs("j1", "+300ms", "j1-replacement")
			},
		}, func(e *c16env) []string {
			var bad []string
			_, ts := countFires(e, "j1")
			late := 0
			for _, t := range ts {
				if t > e.addAt["j1"] {
					late++
				}
			}
			// the occurrence already in flight when the replace returned may still run
			if late > 1 {
				bad = append(bad, fmt.Sprintf("replaced-recurring-job-keeps-firing:after being replaced by a one-shot at +%v, the recurring j1 fired %d more times %v", e.addAt["j1"], late, ts))
			}
			if n, rs := countFires(e, "j1-replacement"); n != 1 {
				bad = append(bad, fmt.Sprintf("replacement-one-shot-fired-%d-times:the one-shot that replaced j1 fired %d times %v (recurring: %v)", n, n, rs, ts))
			}
			return bad
		}},
	}
}

func c16Scenario(scn c16scn, bound int) *lib.SchedScenario {
	name := "C16/inmemory/" + scn.Name
	return &lib.SchedScenario{
		Name: name, Bound: bound, MaxSteps: 100000, Horizon: int64(10 * time.Second),
		Body: func(r *lib.Run) {
			ctx := lib.Ctx()
			c, err := cron.NewCron(cron.NewCronBroadcaster(), 300*time.Millisecond, "verif", 100)
			if err != nil {
				panic(err)
			}
			e := &c16env{r: r, ctx: ctx, c: c, start: vtime.Now(), remAt: map[string]time.Duration{}, addAt: map[string]time.Duration{}, adds: map[string][]time.Duration{}, addRet: map[string][]time.Duration{}}
			r.Data["env"] = e
			c.Start(ctx)
			var wg vsync.WaitGroup
			wg.Add(len(scn.Clients) + 1)
			for _, cl := range scn.Clients {
				cl := cl
				r.Go(func() { cl(e); wg.Done() })
			}
			r.Go(func() { e.observe(); wg.Done() })
			wg.Wait()
			// let the remaining time pass, then stop the loop
			total := c16Totals[scn.Name]
			if total == 0 {
				total = 4 * time.Second
			}
			vtime.Sleep(total - e.since())
			e.observe()
			e.pendingAtEnd = c.PendingCount()
			c.Kill(ctx)
			r.Record("fires=%v", e.fires)
		},
		Check: func(r *lib.Run) []*lib.Violation {
			if r.Exec.Deadlock != "" {
				return []*lib.Violation{{Signature: "C16/inmemory/deadlock", Summary: name + ": deadlock: " + r.Exec.Deadlock}}
			}
			if r.Exec.Panic != "" {
				return []*lib.Violation{{Signature: "C16/inmemory/panic:" + c12PanicClass(r.Exec.Panic), Summary: name + ": " + firstLines(r.Exec.Panic, 6)}}
			}
			if r.Exec.CapHit {
				return nil
			}
			e, _ := r.Data["env"].(*c16env)
			if e == nil {
				return nil
			}
			var vs []*lib.Violation
			if e.maxDup > 1 {
				vs = append(vs, &lib.Violation{Signature: "C16/inmemory/more-than-one-pending-entry-per-id-or-unsorted-timeline", Summary: fmt.Sprintf("%s: the timeline held %d entries for one id (99 = not sorted by due time)", name, e.maxDup)})
			}
			bad := scn.Expect(e)
			sort.Strings(bad)
			for _, b := range bad {
				p := strings.SplitN(b, ":", 2)
				vs = append(vs, &lib.Violation{Signature: "C16/inmemory/" + p[0], Summary: name + ": " + p[1]})
			}
			return vs
		},
		Races: func(rc sched.Race) *lib.Violation {
			return &lib.Violation{Signature: "C16/inmemory/data-race:" + rc.Loc + ":" + rc.SiteA + "~" + rc.SiteB, Summary: fmt.Sprintf("%s: %s data race on %s between %s and %s", name, rc.Kinds, rc.Loc, rc.SiteA, rc.SiteB)}
		},
	}
}

func c16Scenarios(tier string) []*lib.SchedScenario {
	bound := 2
	if tier == "thorough" {
		bound = 3
	}
	var scs []*lib.SchedScenario
	for _, s := range c16Scns() {
		scs = append(scs, c16Scenario(s, bound))
	}
	return scs
}

func init() {
	lib.Register(&lib.Check{
		ID:    "C16",
		Level: "model_checking",
		Rule: "schedule exploration with virtual time (deviation bound 2 quick / 3 thorough; an early timer landing is a deviation) of the in-memory cron's loop goroutine, firing goroutines and 1-2 clients over 10 scenarios (one-shots, callbacks that outlast their period with a replace and a Rem arriving while they run, removal of the head job with a later job behind it, concurrent replace of one id, add+rem before due, concurrent add/rem, recurring then rem, suspend/resume, pause, replace recurring by one-shot), horizon 4 virtual seconds; " +
			"states = distinct observed outcomes, traces = schedules executed",
		Assumptions: []string{
			"callbacks are instantaneous in virtual time; a callback's firing time is read from the virtual clock inside the callback",
		},
		Budget: func(tier string) time.Duration {
			if tier == "thorough" {
				return 25 * time.Minute
			}
			return 4 * time.Minute
		},
		Run: func(w *lib.Worker) {
			for i, sc := range c16Scenarios(w.Tier) {
				if i%w.NShards != w.Shard {
					continue
				}
				w.ExploreWhole(sc)
			}
		},
		ReplayFn: func(w *lib.Worker, raw json.RawMessage) { w.ReplaySched(raw, c16Scenarios("thorough")) },
	})
}
