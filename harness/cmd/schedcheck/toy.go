package main

// TOY: self-test of the explorer on planted bugs (not a property check).
//   lost update  — two threads do an unlocked read-modify-write with a lock
//                  around each half (atomicity violation, no data race);
//   deadlock     — two threads take two mutexes in opposite order;
//   rw-recursion — recursive RLock with a writer in between (Go's writer preference);
//   chan         — unbuffered rendezvous + select with timeout in virtual time.

import (
	"encoding/json"
	"fmt"
	"time"

	"github.com/Comcast/rulio/verifrt/sched"
	"github.com/Comcast/rulio/verifrt/vchan"
	vsync "github.com/Comcast/rulio/verifrt/vsync"
	vtime "github.com/Comcast/rulio/verifrt/vtime"
	"verifharness/lib"
)

func toyScenarios() []*lib.SchedScenario {
	return []*lib.SchedScenario{
		{Name: "toy-lost-update", Bound: 2, Body: func(r *lib.Run) {
			var mu vsync.Mutex
			counter := 0
			var wg vsync.WaitGroup
			wg.Add(2)
			for i := 0; i < 2; i++ {
				r.Go(func() {
					mu.Lock()
					v := counter
					mu.Unlock()
					mu.Lock()
					counter = v + 1
					mu.Unlock()
					wg.Done()
				})
			}
			wg.Wait()
			r.Record("counter=%d", counter)
		}, Check: func(r *lib.Run) []*lib.Violation {
			if r.Exec.Deadlock != "" || r.Exec.Panic != "" {
				return []*lib.Violation{{Signature: "toy/unexpected", Summary: r.Exec.Deadlock + r.Exec.Panic}}
			}
			if o := r.Obs(); len(o) != 1 || o[0] != "counter=2" {
				return []*lib.Violation{{Signature: "toy/lost-update", Summary: fmt.Sprint(o)}}
			}
			return nil
		}},
		{Name: "toy-deadlock", Bound: 2, Body: func(r *lib.Run) {
			var a, b vsync.Mutex
			var wg vsync.WaitGroup
			wg.Add(2)
			r.Go(func() { a.Lock(); b.Lock(); b.Unlock(); a.Unlock(); wg.Done() })
			r.Go(func() { b.Lock(); a.Lock(); a.Unlock(); b.Unlock(); wg.Done() })
			wg.Wait()
		}, Check: func(r *lib.Run) []*lib.Violation {
			if r.Exec.Deadlock != "" {
				return []*lib.Violation{{Signature: "toy/deadlock", Summary: r.Exec.Deadlock}}
			}
			return nil
		}},
		{Name: "toy-rw-recursion", Bound: 2, Body: func(r *lib.Run) {
			var m vsync.RWMutex
			var wg vsync.WaitGroup
			wg.Add(2)
			r.Go(func() { m.RLock(); m.RLock(); m.RUnlock(); m.RUnlock(); wg.Done() })
			r.Go(func() { m.Lock(); m.Unlock(); wg.Done() })
			wg.Wait()
		}, Check: func(r *lib.Run) []*lib.Violation {
			if r.Exec.Deadlock != "" {
				return []*lib.Violation{{Signature: "toy/rw-deadlock", Summary: r.Exec.Deadlock}}
			}
			return nil
		}},
		{Name: "toy-chan-timeout", Bound: 2, Body: func(r *lib.Run) {
			c := make(chan int)
			done := make(chan bool, 1)
			r.Go(func() {
				vtime.Sleep(50 * time.Millisecond)
				vchan.Send(c, 7)
			})
			r.Go(func() {
				i, v, _ := vchan.Select(false, vchan.R(c), vchan.R(vtime.After(100*time.Millisecond)))
				if i == 0 {
					r.Record("got %d at +%v", vchan.As(c, v), vtime.Since(time.Date(2030, 1, 1, 0, 0, 0, 0, time.UTC)))
				} else {
					r.Record("timeout")
				}
				vchan.Send(done, true)
			})
			vchan.Recv(done)
			_ = sched.Current
		}, Check: func(r *lib.Run) []*lib.Violation {
			if r.Exec.Deadlock != "" {
				// the sender is left blocked when the timeout wins: a leak, reported by the scheduler as deadlock at exit? no: main exits
			}
			return nil
		}},
	}
}

func init() {
	lib.Register(&lib.Check{
		ID: "TOY", Level: "model_checking", Rule: "explorer self-test on planted bugs",
		Shards: func(string) int { return 2 },
		Run: func(w *lib.Worker) {
			for _, sc := range toyScenarios() {
				w.Explore(sc)
			}
		},
		ReplayFn: func(w *lib.Worker, raw json.RawMessage) { w.ReplaySched(raw, toyScenarios()) },
	})
}
