package main

// C04 — an event runs each action exactly once per rule and binding result.
//
// Engine GEN x SCHED.  Shapes: 1..2 rules; `when` giving 1 or 2 binding sets
// (array pattern); condition in {none, a pattern over 0/1/2 facts}; 1..2
// actions per rule from a template family that reports, through a Go function
// installed with App.UpdateJavascriptRuntime, its tag and the variables it can
// see (one template throws); serialActions off/on.  Every shape's event is
// processed under the controlled scheduler (action goroutines, WaitGroup, the
// Values mutex and the shared Bindings maps are visible).  Oracle: the multiset
// of recorded executions = sum over rules, when-bindings, condition-bindings,
// actions; each saw exactly its bindings plus event/location/ruleId; the work
// tree has one ExecRuleAction node per execution, Values = the results of the
// completed ones; a throwing action is non-complete on its own node and,
// without serialActions, changes nothing else; no deadlock/panic/data race.

import (
	"encoding/json"
	"fmt"
	"sort"
	"strings"
	"sync"
	"time"

	"github.com/Comcast/rulio/core"
	"github.com/Comcast/rulio/verifrt/sched"
	"github.com/robertkrimen/otto"
	"verifharness/lib"
)

type c04shape struct {
	Rules   int  `json:"rules"`
	WhenN   int  `json:"when_bindings"`
	Cond    int  `json:"condition"` // -1 none, else number of matching facts (0,1,2)
	Actions int  `json:"actions"`   // 1, 2, 3 = two actions the first of which throws, 4 = two actions the first of which does not compile
	Serial  bool `json:"serialActions"`
	// Mixed (two rules): 1 = only r1 has serialActions, 2 = only r2 has it
	Mixed int    `json:"mixed_policies"`
	State string `json:"state"`
}

func (s c04shape) String() string {
	ser := fmt.Sprint(s.Serial)
	if s.Mixed == 1 {
		ser = "r1-only"
	} else if s.Mixed == 2 {
		ser = "r2-only"
	}
	return fmt.Sprintf("rules=%d when=%d cond=%d actions=%d serial=%s %s", s.Rules, s.WhenN, s.Cond, s.Actions, ser, s.State)
}

func (s c04shape) serialFor(r int) bool {
	switch s.Mixed {
	case 1:
		return r == 0
	case 2:
		return r == 1
	}
	return s.Serial
}

// recorder is the App: it installs rec() into every JavaScript runtime.
type c04app struct {
	mu    sync.Mutex // native: called from inside otto, never blocks across a scheduling point
	recs  []string
	norec map[string]bool
}

func (a *c04app) GenerateHeaders(ctx *core.Context) map[string]string               { return nil }
func (a *c04app) ProcessBindings(ctx *core.Context, bs core.Bindings) core.Bindings { return bs }
func (a *c04app) ProcessQuery(ctx *core.Context, raw map[string]interface{}, q core.Query) core.Query {
	return q
}
func (a *c04app) UpdateJavascriptRuntime(ctx *core.Context, rt *otto.Otto) error {
	return rt.Set("rec", func(call otto.FunctionCall) otto.Value {
		tag, _ := call.Argument(0).ToString()
		seen, _ := call.Argument(1).ToString()
		a.mu.Lock()
		a.recs = append(a.recs, tag+"|"+seen)
		a.mu.Unlock()
		return otto.UndefinedValue()
	})
}

// the action template: report tag + every visible candidate variable
func c04Action(tag string, throws bool) map[string]interface{} {
	if throws && strings.HasPrefix(tag, "!") {
		// an action whose code does not even compile (AddRule does not compile action code)
		return map[string]interface{}{"code": "var = ;"}
	}
	code := `var seen = {}; var names = ['x','y','e','event','location','ruleId','z']; ` +
		`for (var i = 0; i < names.length; i++) { try { var v = eval(names[i]); seen[names[i]] = v; } catch (err) {} } ` +
		`rec('` + tag + `', JSON.stringify(seen)); `
	if throws {
		code += `throw 'boom-` + tag + `';`
	} else {
		code += `'` + tag + `';`
	}
	return map[string]interface{}{"code": code}
}

func c04Build(sh c04shape) (*core.Context, *core.Location, *c04app, map[string]interface{}, []string) {
	app := &c04app{}
	ctx := lib.Ctx()
	ctx.App = app
	store := lib.MemStore(ctx)
	loc := lib.MustLoc(ctx, sh.State, "L", store)
	// facts for the condition
	for i := 0; i < sh.Cond && sh.Cond <= 2; i++ {
		if _, err := loc.AddFact(ctx, fmt.Sprintf("f%d", i), core.Map{"c": fmt.Sprintf("c%d", i)}); err != nil {
			panic(err)
		}
	}
	var expected []string
	norec := map[string]bool{} // tags of actions that fail before they can record anything
	event := map[string]interface{}{"k": "v1"}
	when := map[string]interface{}{"k": "?x"}
	whenVals := []string{"v1"}
	if sh.WhenN == 2 {
		event = map[string]interface{}{"k": []interface{}{"v1", "v2"}}
		when = map[string]interface{}{"k": []interface{}{"?x"}}
		whenVals = []string{"v1", "v2"}
	}
	for r := 0; r < sh.Rules; r++ {
		rid := fmt.Sprintf("r%d", r+1)
		rule := map[string]interface{}{"when": map[string]interface{}{"pattern": lib.CopyMap(when)}}
		if sh.Cond >= 0 {
			rule["condition"] = map[string]interface{}{"pattern": map[string]interface{}{"c": "?y"}}
		}
		if sh.Cond == 3 {
			// a disjunction of code terms: one disjunct adds the variable z, the other
			// adds nothing - two binding sets that must stay apart
			rule["condition"] = map[string]interface{}{"or": []interface{}{
				map[string]interface{}{"code": "({z:1})"}, map[string]interface{}{"code": "true"}}}
		}
		var acts []interface{}
		nact := sh.Actions
		if nact >= 3 {
			nact = 2
		}
		for a := 0; a < nact; a++ {
			tag := fmt.Sprintf("%s-a%d", rid, a+1)
			// mixed policies: only the NON-serial rule has the throwing action
			throws := sh.Actions >= 3 && a == 0 && !(sh.Mixed != 0 && sh.serialFor(r))
			if throws && sh.Actions == 4 {
				acts = append(acts, c04Action("!"+tag, true))
				norec[tag] = true
				continue
			}
			acts = append(acts, c04Action(tag, throws))
		}
		rule["actions"] = acts
		if sh.serialFor(r) {
			rule["policies"] = map[string]interface{}{"serialActions": true}
		}
		if _, err := loc.AddRule(ctx, rid, core.Map(rule)); err != nil {
			panic(err)
		}
		for _, x := range whenVals {
			ys := []string{""}
			if sh.Cond >= 0 {
				ys = nil
				for i := 0; i < sh.Cond; i++ {
					ys = append(ys, fmt.Sprintf("c%d", i))
				}
			}
			if sh.Cond == 3 {
				ys = []string{"", "<z>"}
			}
			for _, y := range ys {
				for a := 0; a < nact; a++ {
					tag := fmt.Sprintf("%s-a%d", rid, a+1)
					seen := map[string]interface{}{"x": x, "event": event, "location": "L", "ruleId": rid}
					if y == "<z>" {
						seen["z"] = 1.0
					} else if y != "" {
						seen["y"] = y
					}
					expected = append(expected, tag+"|"+lib.Canon(seen))
				}
			}
		}
	}
	sort.Strings(expected)
	app.norec = norec
	return ctx, loc, app, event, expected
}

func c04Scenario(sh c04shape, bound int) *lib.SchedScenario {
	name := "C04/" + sh.String()
	return &lib.SchedScenario{
		Name: name, Bound: bound, MaxSteps: 200000, NoEarlyTimers: true,
		Body: func(r *lib.Run) {
			ctx, loc, app, event, expected := c04Build(sh)
			r.Data["expected"] = expected
			r.Data["norec"] = app.norec
			fr, cond := loc.ProcessEvent(ctx, core.Map(lib.CopyMap(event)))
			r.Data["fr"] = fr
			r.Data["cond"] = cond
			app.mu.Lock()
			recs := append([]string(nil), app.recs...)
			app.mu.Unlock()
			// normalise the JSON the script produced
			for i, rc := range recs {
				p := strings.SplitN(rc, "|", 2)
				var m interface{}
				json.Unmarshal([]byte(p[1]), &m)
				recs[i] = p[0] + "|" + lib.Canon(m)
			}
			sort.Strings(recs)
			r.Data["recs"] = recs
			r.Record("executions=%d", len(recs))
		},
		Check: func(r *lib.Run) []*lib.Violation {
			if r.Exec.Deadlock != "" {
				return []*lib.Violation{{Signature: "C04/deadlock", Summary: name + ": " + r.Exec.Deadlock}}
			}
			if r.Exec.Panic != "" {
				return []*lib.Violation{{Signature: "C04/panic:" + c12PanicClass(r.Exec.Panic), Summary: name + ": " + firstLines(r.Exec.Panic, 6)}}
			}
			if r.Exec.CapHit {
				return nil
			}
			expected, _ := r.Data["expected"].([]string)
			recs, _ := r.Data["recs"].([]string)
			fr, _ := r.Data["fr"].(*core.FindRules)
			cond, _ := r.Data["cond"].(*core.Condition)
			var vs []*lib.Violation
			throwing := sh.Actions >= 3
			// executions that leave a record: all but those of an action that does not compile
			norec, _ := r.Data["norec"].(map[string]bool)
			expRecs := expected
			if len(norec) > 0 {
				expRecs = nil
				for _, e := range expected {
					if !norec[strings.SplitN(e, "|", 2)[0]] {
						expRecs = append(expRecs, e)
					}
				}
			}
			// serialActions: the walk may stop at the failing action of a SERIAL rule (with
			// mixed policies only the non-serial rule throws, so nothing may stop early)
			stopsEarly := throwing && sh.Serial && sh.Mixed == 0
			if !stopsEarly {
				if strings.Join(recs, "\n") != strings.Join(expRecs, "\n") {
					missing, extra := diffSets(expRecs, recs)
					kind := "wrong-executions"
					switch {
					case len(extra) == 0:
						kind = "action-execution-missing"
					case len(missing) == 0:
						kind = "action-executed-more-than-once-or-with-foreign-bindings"
					}
					vs = append(vs, &lib.Violation{Signature: "C04/" + kind, Summary: fmt.Sprintf("%s: actions executed %v; expected %v", name, recs, expRecs), Expected: expRecs, Observed: recs})
				}
			} else {
				// serial + throwing: executions form a prefix-closed subset, none twice
				seen := map[string]int{}
				for _, rc := range recs {
					seen[rc]++
				}
				exp := map[string]int{}
				for _, e := range expected {
					exp[e]++
				}
				for k, n := range seen {
					if n > exp[k] {
						vs = append(vs, &lib.Violation{Signature: "C04/action-executed-more-than-once-or-with-foreign-bindings", Summary: fmt.Sprintf("%s: execution %s happened %d times (expected at most %d)", name, k, n, exp[k])})
					}
				}
			}
			if fr == nil {
				return append(vs, &lib.Violation{Signature: "C04/no-work-tree", Summary: name + ": ProcessEvent returned no tree"})
			}
			// tree: one action node per execution; Values = results of completed nodes
			nodes, complete := 0, 0
			var vals []string
			for _, er := range fr.Children {
				for _, erc := range er.Children {
					for _, era := range erc.Children {
						nodes++
						if era.Disposition == core.Complete {
							complete++
							vals = append(vals, fmt.Sprint(era.Value))
						} else if era.Disposition != nil && !throwing {
							vs = append(vs, &lib.Violation{Signature: "C04/action-node-not-complete", Summary: fmt.Sprintf("%s: action node disposition %v", name, era.Disposition)})
						}
					}
				}
			}
			var got []string
			for _, v := range fr.Values {
				got = append(got, fmt.Sprint(v))
			}
			sort.Strings(vals)
			sort.Strings(got)
			if !stopsEarly && nodes != len(expected) {
				vs = append(vs, &lib.Violation{Signature: "C04/tree-node-count-wrong", Summary: fmt.Sprintf("%s: %d ExecRuleAction nodes for %d expected executions", name, nodes, len(expected))})
			}
			if strings.Join(vals, ",") != strings.Join(got, ",") {
				vs = append(vs, &lib.Violation{Signature: "C04/values-differ-from-completed-nodes", Summary: fmt.Sprintf("%s: values %v, completed action nodes report %v", name, got, vals), Expected: vals, Observed: got})
			}
			if !throwing {
				if cond != nil {
					vs = append(vs, &lib.Violation{Signature: "C04/event-not-complete", Summary: fmt.Sprintf("%s: ProcessEvent condition %v", name, cond)})
				}
				if complete != len(expected) {
					vs = append(vs, &lib.Violation{Signature: "C04/not-all-actions-complete", Summary: fmt.Sprintf("%s: %d of %d actions complete", name, complete, len(expected))})
				}
			} else if !sh.Serial || sh.Mixed != 0 {
				// the failing action is reported on its own node; the others all completed
				want := 0
				for _, e := range expected {
					thrower := strings.Contains(e, "-a1|")
					if sh.Mixed == 1 && strings.HasPrefix(e, "r1-") || sh.Mixed == 2 && strings.HasPrefix(e, "r2-") {
						thrower = false // the serial rule's actions do not throw
					}
					if !thrower {
						want++
					}
				}
				if cond != nil {
					vs = append(vs, &lib.Violation{Signature: "C04/failing-action-of-non-serial-rule-stops-the-event", Summary: fmt.Sprintf("%s: ProcessEvent stopped with %v although the failing action's rule did not ask for serial actions", name, cond)})
				}
				if complete != want {
					vs = append(vs, &lib.Violation{Signature: "C04/failing-action-affects-others", Summary: fmt.Sprintf("%s: %d actions completed, expected %d (every execution of the non-throwing action)", name, complete, want)})
				}
			}
			return vs
		},
		Races: func(rc sched.Race) *lib.Violation {
			return &lib.Violation{Signature: "C04/data-race:" + rc.Loc + ":" + rc.SiteA + "~" + rc.SiteB, Summary: fmt.Sprintf("%s: %s data race on %s between %s and %s", name, rc.Kinds, rc.Loc, rc.SiteA, rc.SiteB)}
		},
	}
}

func c04Scenarios(tier string) []*lib.SchedScenario {
	var scs []*lib.SchedScenario
	bound := 1
	if tier == "thorough" {
		bound = 2
	}
	for _, state := range []string{"indexed", "linear"} {
		for _, rules := range []int{1, 2} {
			for _, wn := range []int{1, 2} {
				for _, cond := range []int{-1, 0, 1, 2, 3} {
					for _, acts := range []int{1, 2, 3, 4} {
						if acts == 4 && (cond == 0 || cond == 3 || (tier == "quick" && state == "linear")) {
							continue // the non-compiling first action: the main condition shapes
						}
						for _, serial := range []bool{false, true} {
							if tier == "quick" && state == "linear" && (rules == 2 || cond == 0) {
								continue
							}
							if cond == 3 && (rules == 2 || (tier == "quick" && wn == 2)) {
								continue // the code-disjunction condition: one rule is enough
							}
							scs = append(scs, c04Scenario(c04shape{rules, wn, cond, acts, serial, 0, state}, bound))
							if rules == 2 && serial && cond != 0 {
								scs = append(scs, c04Scenario(c04shape{rules, wn, cond, acts, false, 1, state}, bound))
								scs = append(scs, c04Scenario(c04shape{rules, wn, cond, acts, false, 2, state}, bound))
							}
						}
					}
				}
			}
		}
	}
	return scs
}

func init() {
	lib.Register(&lib.Check{
		ID:    "C04",
		Level: "model_checking",
		Rule: "all shapes {1..2 rules} x {1,2 when-bindings} x {no condition, pattern condition yielding 0/1/2 bindings, a disjunction of two code terms of which one adds a variable} x {1 action, 2 actions, 2 actions the first throwing} x serialActions off/on/only-r1/only-r2 x state, each event processed under the controlled scheduler with deviation bound 1 (quick) / 2 (thorough); oracle: recorded executions (tag + visible variables) = expected multiset, work tree nodes, Values, dispositions, no deadlock/panic/happens-before race; " +
			"states = distinct observed outcomes, traces = schedules executed; non-trivial = distinct (shape, outcome)",
		Assumptions: []string{
			"actions come from one template family that reports the candidate variables x,y,e,event,location,ruleId,z it can see",
			"with serialActions a failing action may stop the walk: only 'never twice' is required of the remaining executions",
		},
		Budget: func(tier string) time.Duration {
			if tier == "thorough" {
				return 30 * time.Minute
			}
			return 5 * time.Minute
		},
		Run: func(w *lib.Worker) {
			for i, sc := range c04Scenarios(w.Tier) {
				if i%w.NShards != w.Shard {
					continue
				}
				if w.TimeUp() {
					w.Cap("time budget reached before all shapes were explored")
					return
				}
				w.ExploreWhole(sc)
			}
		},
		ReplayFn: func(w *lib.Worker, raw json.RawMessage) { w.ReplaySched(raw, c04Scenarios("thorough")) },
	})
}
