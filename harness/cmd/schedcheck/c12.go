package main

// C12 — concurrent requests to one location are atomic.
//
// Engine SCHED on a core.Location over (instrumented) MemStorage.  Client
// threads issue operations on shared ids; ALL ordered pairs of the operation
// alphabet (2 threads x 1 op), from an empty and from a populated location,
// both states; thorough adds 3 threads x 1 op and 2 threads x 2 ops over a
// reduced alphabet.  Oracle, per explored schedule: (i) the call/return
// history is linearizable: some order of the operations that respects real
// time, executed SEQUENTIALLY on a fresh location, gives every operation the
// result it observed; (ii) for that order the final private state and the
// final storage equal the sequential run's; (iii) no deadlock, no escaped
// panic; (iv) no happens-before data race on instrumented memory.

import (
	"encoding/json"
	"fmt"
	"sort"
	"strings"
	"time"

	"github.com/Comcast/rulio/core"
	"github.com/Comcast/rulio/verifrt/sched"
	vsync "github.com/Comcast/rulio/verifrt/vsync"
	"verifharness/lib"
)

type c12op struct {
	Name string
	Run  func(ctx *core.Context, loc *core.Location) string
}

const c12RuleJS = `{"when":{"pattern":{"e":"?e"}},"action":{"code":"'fired'"}}`

func c12Ops() []c12op {
	res := func(s string, err error) string {
		if err != nil {
			return "err:" + lib.ErrClass(err)
		}
		return s
	}
	return []c12op{
		{"AddFact(f1,v1)", func(ctx *core.Context, l *core.Location) string {
			return res(l.AddFact(ctx, "f1", core.Map{"k": "v1"}))
		}},
		{"AddFact(f1,v2)", func(ctx *core.Context, l *core.Location) string {
			return res(l.AddFact(ctx, "f1", core.Map{"k": "v2"}))
		}},
		{"RemFact(f1)", func(ctx *core.Context, l *core.Location) string { return res(l.RemFact(ctx, "f1")) }},
		{"GetFact(f1)", func(ctx *core.Context, l *core.Location) string {
			m, err := l.GetFact(ctx, "f1")
			return res(lib.Canon(map[string]interface{}(m)), err)
		}},
		{"SearchFacts({k:?v})", func(ctx *core.Context, l *core.Location) string {
			sr, err := l.SearchFacts(ctx, core.Map{"k": "?v"}, false)
			if err != nil {
				return res("", err)
			}
			var xs []string
			for _, f := range sr.Found {
				xs = append(xs, f.Id+"="+strings.Join(lib.BindingsSet(f.Bindingss), ";"))
			}
			sort.Strings(xs)
			return strings.Join(xs, ",")
		}},
		{"AddRule(r1)", func(ctx *core.Context, l *core.Location) string {
			return res(l.AddRule(ctx, "r1", core.Map(lib.JM(c12RuleJS))))
		}},
		{"RemRule(r1)", func(ctx *core.Context, l *core.Location) string { return res(l.RemRule(ctx, "r1")) }},
		{"EnableRule(r1,false)", func(ctx *core.Context, l *core.Location) string {
			return res("", l.EnableRule(ctx, "r1", false))
		}},
		{"ProcessEvent({e:1})", func(ctx *core.Context, l *core.Location) string {
			fr, cond := l.ProcessEvent(ctx, core.Map{"e": "1"})
			if cond != nil {
				return "cond:" + cond.Msg
			}
			var rs []string
			for _, ch := range fr.Children {
				rs = append(rs, ch.Rule.Id)
			}
			sort.Strings(rs)
			return fmt.Sprint(rs, fr.Values)
		}},
	}
}

type c12world struct {
	ctx   *core.Context
	store *core.MemStorage
	loc   *core.Location
}

func c12New(kind string, populated bool) *c12world {
	ctx := lib.Ctx()
	store := lib.MemStore(ctx)
	loc := lib.MustLoc(ctx, kind, "L", store)
	if populated {
		if _, err := loc.AddFact(ctx, "f1", core.Map{"k": "v0"}); err != nil {
			panic(err)
		}
		if _, err := loc.AddRule(ctx, "r1", core.Map(lib.JM(c12RuleJS))); err != nil {
			panic(err)
		}
		// a dependent of each: removing f1 / r1 cascades (and takes whatever locks a
		// cascade takes) while the other client is inside its own operation
		if _, err := loc.AddFact(ctx, "d1", core.Map{"j": "dep", "deleteWith": []interface{}{"f1"}}); err != nil {
			panic(err)
		}
		if _, err := loc.AddFact(ctx, "d2", core.Map{"j": "dep", "deleteWith": []interface{}{"r1"}}); err != nil {
			panic(err)
		}
	}
	return &c12world{ctx, store, loc}
}

func (w *c12world) snapshot() string {
	return stripCachedS(core.VerifDumpJSON(w.loc.VerifState())) + "|" + lib.Canon(lib.Pairs(w.ctx, w.store, "L"))
}

func stripCachedS(dump string) string {
	var m map[string]interface{}
	if json.Unmarshal([]byte(dump), &m) != nil {
		return dump
	}
	delete(m, "cached")
	// stale term-index entries and empty trie leftovers are unobservable
	delete(m, "terms")
	return lib.Canon(m)
}

type c12event struct {
	thread, idx int
	call, ret   int
	result      string
}

// seqOutcomes: for every interleaving of the threads' programs (respecting
// program order), results and final snapshot of a sequential run.
type c12seq struct {
	order   [][2]int // (thread, idx)
	results map[[2]int]string
	final   string
}

func c12Sequential(kind string, populated bool, progs [][]int, ops []c12op) []c12seq {
	var out []c12seq
	pos := make([]int, len(progs))
	var order [][2]int
	var rec func()
	rec = func() {
		done := true
		for t := range progs {
			if pos[t] < len(progs[t]) {
				done = false
				order = append(order, [2]int{t, pos[t]})
				pos[t]++
				rec()
				pos[t]--
				order = order[:len(order)-1]
			}
		}
		if done {
			w := c12New(kind, populated)
			s := c12seq{order: append([][2]int{}, order...), results: map[[2]int]string{}}
			for _, o := range order {
				s.results[o] = ops[progs[o[0]][o[1]]].Run(lib.Ctx(), w.loc)
			}
			s.final = w.snapshot()
			out = append(out, s)
		}
	}
	rec()
	return out
}

func c12Scenario(kind string, populated bool, progs [][]int, ops []c12op, bound int) *lib.SchedScenario {
	var names []string
	for t, p := range progs {
		var xs []string
		for _, o := range p {
			xs = append(xs, ops[o].Name)
		}
		names = append(names, fmt.Sprintf("T%d[%s]", t+1, strings.Join(xs, ";")))
	}
	name := fmt.Sprintf("C12/%s/populated=%v/%s", kind, populated, strings.Join(names, " || "))
	var seqs []c12seq
	return &lib.SchedScenario{
		Name: name, Bound: bound, MaxSteps: 100000,
		NoEarlyTimers: true, // a JavaScript timeout landing early is C14's subject
		Body: func(r *lib.Run) {
			w := c12New(kind, populated)
			r.Data["world"] = w
			var wg vsync.WaitGroup
			var clock int
			events := make([]*c12event, 0, 8)
			r.Data["events"] = &events
			wg.Add(len(progs))
			for t := range progs {
				t := t
				r.Go(func() {
					ctx := lib.Ctx()
					for i, o := range progs[t] {
						ev := &c12event{thread: t, idx: i}
						clock++
						ev.call = clock
						events = append(events, ev)
						ev.result = ops[o].Run(ctx, w.loc)
						clock++
						ev.ret = clock
					}
					wg.Done()
				})
			}
			wg.Wait()
			r.Data["final"] = w.snapshot()
			for _, ev := range events {
				r.Record("T%d.%d=%s", ev.thread+1, ev.idx, ev.result)
			}
		},
		Check: func(r *lib.Run) []*lib.Violation {
			cfg := name
			if r.Exec.Deadlock != "" {
				return []*lib.Violation{{Signature: "C12/" + kind + "/deadlock", Summary: cfg + ": deadlock: " + r.Exec.Deadlock}}
			}
			if r.Exec.Panic != "" {
				return []*lib.Violation{{Signature: "C12/" + kind + "/panic:" + c12PanicClass(r.Exec.Panic), Summary: cfg + ": " + firstLines(r.Exec.Panic, 6)}}
			}
			if r.Exec.CapHit {
				return nil
			}
			if seqs == nil {
				seqs = c12Sequential(kind, populated, progs, ops)
			}
			evp, _ := r.Data["events"].(*[]*c12event)
			final, _ := r.Data["final"].(string)
			if evp == nil {
				return nil
			}
			events := *evp
			byKey := map[[2]int]*c12event{}
			for _, ev := range events {
				byKey[[2]int{ev.thread, ev.idx}] = ev
			}
			resultsOK, stateOK := false, false
			for _, s := range seqs {
				// real-time order: if a returned before b was called, a must precede b
				ok := true
				posOf := map[[2]int]int{}
				for i, o := range s.order {
					posOf[o] = i
				}
				for _, a := range events {
					for _, b := range events {
						if a.ret < b.call && posOf[[2]int{a.thread, a.idx}] > posOf[[2]int{b.thread, b.idx}] {
							ok = false
						}
					}
				}
				if !ok {
					continue
				}
				same := true
				for k, ev := range byKey {
					if s.results[k] != ev.result {
						same = false
					}
				}
				if same {
					resultsOK = true
					if s.final == final {
						stateOK = true
						break
					}
				}
			}
			if !resultsOK {
				return []*lib.Violation{{Signature: "C12/" + kind + "/not-linearizable", Summary: fmt.Sprintf("%s: observed results %v are not explained by any sequential order that respects real time", cfg, r.Obs()), Observed: r.Obs()}}
			}
			if !stateOK {
				if ids := c12MemStoreDiff(final); len(ids) > 0 {
					// narrow classifier: memory and storage disagree with EACH OTHER about an id that
					// both clients wrote (the two are updated in different critical sections)
					return []*lib.Violation{{Signature: "C12/" + kind + "/memory-and-storage-disagree-after-concurrent-writes:" + c12OpKinds(progs, ops, ids), Summary: fmt.Sprintf("%s: after the concurrent writes memory and storage disagree about %v: %s", cfg, ids, final), Observed: final}}
				}
				return []*lib.Violation{{Signature: "C12/" + kind + "/final-state-matches-no-linearization", Summary: fmt.Sprintf("%s: results %v are linearizable but the final memory/storage state %s equals that of no such order", cfg, r.Obs(), final), Observed: final}}
			}
			return nil
		},
		Races: func(rc sched.Race) *lib.Violation {
			return &lib.Violation{Signature: "C12/" + kind + "/data-race:" + rc.Loc + ":" + rc.SiteA + "~" + rc.SiteB, Summary: fmt.Sprintf("%s: %s data race on %s between %s and %s (unordered by happens-before)", name, rc.Kinds, rc.Loc, rc.SiteA, rc.SiteB)}
		},
	}
}

// c12MemStoreDiff: ids whose in-memory fact differs from the stored pair.
func c12MemStoreDiff(final string) []string {
	i := strings.LastIndex(final, "|")
	if i < 0 {
		return nil
	}
	var dump map[string]interface{}
	var pairs map[string]string
	if json.Unmarshal([]byte(final[:i]), &dump) != nil || json.Unmarshal([]byte(final[i+1:]), &pairs) != nil {
		return nil
	}
	mem := map[string]string{}
	facts, _ := dump["facts"].(map[string]interface{})
	for id, f := range facts {
		if m, ok := f.(map[string]interface{}); ok && dump["kind"] == "linear" {
			f = m["m"]
		}
		mem[id] = lib.Canon(f)
	}
	sto := map[string]string{}
	for id, js := range pairs {
		var x interface{}
		json.Unmarshal([]byte(js), &x)
		sto[id] = lib.Canon(x)
	}
	var ids []string
	for id := range mem {
		if mem[id] != sto[id] {
			ids = append(ids, id)
		}
	}
	for id := range sto {
		if _, ok := mem[id]; !ok {
			ids = append(ids, id)
		}
	}
	sort.Strings(ids)
	return lib.Dedup(ids)
}

// c12OpKinds names the kinds of the WRITERS of the ids that memory and storage
// disagree about (readers and writers of other ids are not part of the defect):
// "AddFact~AddFact", "AddFact~RemFact", ... - one kind is doubled, three or more
// distinct kinds are all listed.
func c12OpKinds(progs [][]int, ops []c12op, ids []string) string {
	wantFacts, wantRules := false, false
	for _, id := range ids {
		if id == "f1" {
			wantFacts = true
		} else {
			wantRules = true
		}
	}
	set := map[string]int{}
	for _, p := range progs {
		for _, o := range p {
			k := strings.SplitN(ops[o].Name, "(", 2)[0]
			switch k {
			case "AddFact", "RemFact":
				if wantFacts {
					set[k]++
				}
			case "AddRule", "RemRule", "EnableRule":
				if wantRules {
					set[k]++
				}
			}
		}
	}
	var ks []string
	for k := range set {
		ks = append(ks, k)
	}
	sort.Strings(ks)
	if len(ks) == 1 {
		ks = append(ks, ks[0])
	}
	return strings.Join(ks, "~")
}

func c12PanicClass(p string) string {
	switch {
	case strings.Contains(p, "RUnlock of unlocked"):
		return "runlock-of-unlocked-rwmutex"
	case strings.Contains(p, "unlock of unlocked"), strings.Contains(p, "Unlock of unlocked"):
		return "unlock-of-unlocked-mutex"
	case strings.Contains(p, "concurrent map"):
		return "concurrent-map-access"
	case strings.Contains(p, "nil pointer"):
		return "nil-pointer"
	}
	return "other"
}

func firstLines(s string, n int) string {
	ls := strings.Split(s, "\n")
	if len(ls) > n {
		ls = ls[:n]
	}
	return strings.Join(ls, " / ")
}

func c12Scenarios(tier string) []*lib.SchedScenario {
	ops := c12Ops()
	var scs []*lib.SchedScenario
	bound := 3
	if tier == "thorough" {
		bound = 4
	}
	for _, kind := range []string{"indexed", "linear"} {
		for _, pop := range []bool{false, true} {
			for a := range ops {
				for b := range ops { // ordered pairs: which client is started first matters under delay bounding
					scs = append(scs, c12Scenario(kind, pop, [][]int{{a}, {b}}, ops, bound))
				}
			}
		}
	}
	if tier == "thorough" {
		small := []int{0, 1, 2, 3, 8} // add v1, add v2, rem, get, event
		for _, kind := range []string{"indexed", "linear"} {
			for _, a := range small {
				for _, b := range small {
					for _, c := range small {
						if a <= b && b <= c {
							scs = append(scs, c12Scenario(kind, true, [][]int{{a}, {b}, {c}}, ops, 2))
						}
						scs = append(scs, c12Scenario(kind, true, [][]int{{a, b}, {c}}, ops, 2))
					}
				}
			}
		}
	}
	return scs
}

func init() {
	lib.Register(&lib.Check{
		ID:    "C12",
		Level: "model_checking",
		Rule: "stateless schedule exploration (controlled cooperative scheduler, deviation bound 3 quick / 4 thorough; a deviation = preempting a runnable thread, or not picking the lowest-id runnable thread when the running one blocks) of 2 client threads x 1 operation for ALL ordered pairs of 9 operations on shared ids, from an empty and a populated location, both states (thorough: + 3 threads x 1 op and 2+1 ops over a 5-operation alphabet); oracle: brute-force linearizability against sequential runs of the same operations plus final memory/storage state, deadlock, escaped panic, happens-before races; " +
			"states = distinct observed outcomes, transitions = scheduling decisions, traces = schedules executed; non-trivial = distinct (scenario, outcome) pairs",
		Assumptions: []string{
			"sequential consistency for racy code (races themselves are reported)",
			"the scheduler sees rulio's sync, goroutines, channels, timers and instrumented map accesses; memory inside otto is not visible",
			"2..3 clients of the property's 2..8",
		},
		Budget: func(tier string) time.Duration {
			if tier == "thorough" {
				return 40 * time.Minute
			}
			return 6 * time.Minute
		},
		Run: func(w *lib.Worker) {
			for i, sc := range c12Scenarios(w.Tier) {
				if i%w.NShards != w.Shard {
					continue
				}
				if w.TimeUp() {
					w.Cap("time budget reached before all scenarios were explored")
					return
				}
				w.ExploreWhole(sc)
			}
		},
		ReplayFn: func(w *lib.Worker, raw json.RawMessage) { w.ReplaySched(raw, c12Scenarios("thorough")) },
	})
}
