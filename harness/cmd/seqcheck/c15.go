package main

// C15 — scheduled rules run when due, per location, and never after removal.
//
// Engine SEQ: BFS over histories on two locations A and B of a sys.System whose
// cron service is the harness's recording Cronner, in the two shapes rulio is
// deployed with:
//   builtin   ephemeral, registrations keyed by (location, id) (as
//             cron.InternalCron does), ticks delivered to the Location instance
//             captured at registration; the REAL InternalCron is driven under
//             the scheduler by schedcheck's C15 part over the same kinds of
//             history, which is what ties this model to the code;
//   external  persistent, keyed by (location, id) (as the crolt service keys by
//             account = location), ticks resolved by location name.
// Operations: AddRule(L,r, recurring | recurring with a condition on fact c |
// recurring that is deleteWith c | recurring that expires at T0+2s | one-shot |
// ordinary when-rule), AddFact(L,r,plain fact) (overwrite the rule id),
// RemRule(L,r), AddFact/RemFact(L,c), ClearLocation(L), clock += 3s, restart
// (new System over the same storage; the ephemeral cron starts empty, then both
// locations are loaded), tick(L) (every registration held for L is delivered).
// Model: which scheduled rule is live where.  After every step the set of
// registrations must equal the set of live scheduled rules (Battery), and every
// delivered tick must produce exactly the live scheduled rule's action value in
// its own location - nothing if the rule is gone, replaced by a non-scheduled
// rule, expired or its condition is false - and a one-shot rule must be gone
// (rule and registration) after it ran.

import (
	"encoding/json"
	"fmt"
	"sort"
	"strings"
	"time"

	"github.com/Comcast/rulio/core"
	"github.com/Comcast/rulio/sys"
	"verifharness/lib"
)

type c15op struct {
	Kind string // add addfact rem factc remc clear clock restart tick
	Loc  string
	Var  string
}

func (o c15op) String() string {
	switch o.Kind {
	case "add":
		return fmt.Sprintf("AddRule(%s,r,%s)", o.Loc, o.Var)
	case "addfact":
		return fmt.Sprintf("AddFact(%s,r,plain fact)", o.Loc)
	case "rem":
		return fmt.Sprintf("RemRule(%s,r)", o.Loc)
	case "factc":
		return fmt.Sprintf("AddFact(%s,c)", o.Loc)
	case "remc":
		return fmt.Sprintf("RemFact(%s,c)", o.Loc)
	case "clear":
		return fmt.Sprintf("ClearLocation(%s)", o.Loc)
	case "clock":
		return "clock+=3s"
	case "restart":
		return "restart(new System, same storage)"
	case "tick":
		return fmt.Sprintf("tick(%s)", o.Loc)
	}
	return "?"
}

var c15Variants = []string{"recurring", "recurring-if-c", "recurring-deleteWith-c", "recurring-expiring", "one-shot", "ordinary"}

func c15Ops(two bool) []c15op {
	var ops []c15op
	locs := []string{"A"}
	if two {
		locs = []string{"A", "B"}
	}
	for _, l := range locs {
		ops = append(ops, c15op{"tick", l, ""})
	}
	for _, l := range locs {
		for _, v := range c15Variants {
			if l == "B" && v != "recurring" && v != "one-shot" && v != "ordinary" {
				continue
			}
			ops = append(ops, c15op{"add", l, v})
		}
		ops = append(ops, c15op{"addfact", l, ""}, c15op{"rem", l, ""}, c15op{"clear", l, ""})
		if l == "A" {
			ops = append(ops, c15op{"factc", l, ""}, c15op{"remc", l, ""})
		}
	}
	ops = append(ops, c15op{"clock", "", ""}, c15op{"restart", "", ""})
	return ops
}

func c15Rule(loc, v string) map[string]interface{} {
	r := map[string]interface{}{"action": map[string]interface{}{"code": fmt.Sprintf("'%s:r:%s'", loc, v)}}
	switch v {
	case "recurring":
		r["schedule"] = "* * * * *"
	case "recurring-if-c":
		r["schedule"] = "* * * * *"
		r["condition"] = map[string]interface{}{"pattern": map[string]interface{}{"have": "?h"}}
	case "recurring-deleteWith-c":
		r["schedule"] = "* * * * *"
		r["deleteWith"] = []interface{}{"c"}
	case "recurring-expiring":
		r["schedule"] = "* * * * *"
		r["expires"] = float64(lib.T0.Add(2 * time.Second).Unix())
	case "one-shot":
		r["schedule"] = "+1s"
	case "ordinary":
		r["when"] = map[string]interface{}{"pattern": map[string]interface{}{"e": "?e"}}
	}
	return r
}

type c15rule struct {
	Var string
}

func (r *c15rule) scheduled() bool { return r != nil && r.Var != "ordinary" && r.Var != "fact" }

type c15inst struct {
	kind, cronKind string
	ops            []c15op
	w              *lib.Worker
	clock          interface {
		Advance(time.Duration)
		Now() time.Time
	}
	store core.Storage
	sys   *sys.System
	cron  *lib.RecCron
	rules map[string]*c15rule // by location
	haveC map[string]bool
	ended map[string]string // location -> how the last scheduled rule under id r ended
	after string            // "" or "after-restart"
}

func (in *c15inst) cfg() string { return in.kind + "/" + in.cronKind }

func (in *c15inst) newSystem() {
	ctx := lib.Ctx()
	conf := sys.SystemConfig{Storage: "memory", UnindexedState: in.kind == "linear"}
	cont := sys.SystemControl{LocationTTL: sys.Forever, DefaultLocControl: lib.QuietControl(), CachePending: true}
	if in.cron == nil || !in.cron.IsPersist {
		in.cron = lib.NewRecCron(in.cronKind == "external")
		in.cron.ByLocation = true // the built-in cron qualifies job ids by location (cron/internal.go jobId); schedcheck C15 binds that to the real InternalCron
		in.cron.ViaInstance = in.cronKind == "builtin"
	}
	s, err := sys.NewSystem(ctx, conf, cont, in.cron)
	if err != nil {
		panic(err)
	}
	s.VerifSetStorage(in.store)
	in.sys = s
	in.cron.Resolve = func(ctx *core.Context, name string) (*core.Location, error) { return s.GetLocation(ctx, name) }
}

func (in *c15inst) Close() {}

func (in *c15inst) expired(r *c15rule) bool {
	return r != nil && r.Var == "recurring-expiring" && in.clock.Now().Unix() >= lib.T0.Add(2*time.Second).Unix()
}

func (in *c15inst) Key() string {
	var sb strings.Builder
	sb.WriteString(lib.Canon(in.rules) + lib.Canon(in.haveC) + lib.Canon(in.ended) + in.after)
	sb.WriteString(fmt.Sprint(in.cron.Held(), in.clock.Now().Unix() >= lib.T0.Add(2*time.Second).Unix()))
	for _, l := range []string{"A", "B"} {
		mem := "(not cached)"
		if loc := in.sys.VerifCachedLocation(l); loc != nil {
			mem = core.VerifKeyJSON(loc.VerifState())
		}
		sb.WriteString("|" + mem + "|" + lib.Canon(lib.Pairs(lib.Ctx(), in.store, l)))
	}
	return sb.String()
}

// end records that the scheduled rule under (loc, r) ended, and why.
func (in *c15inst) end(loc, cause string) {
	if in.rules[loc].scheduled() {
		in.ended[loc] = in.how(loc, cause)
	}
	delete(in.rules, loc)
}

// how qualifies the way a scheduled rule ended: a rule that had expired before
// is a case of its own (nothing ever unschedules an expired rule).
func (in *c15inst) how(loc, cause string) string {
	if in.expired(in.rules[loc]) {
		return "expired-then-" + cause
	}
	return cause
}

func (in *c15inst) Apply(opi int) *lib.Violation {
	op := in.ops[opi]
	ctx := lib.Ctx() // one context per request, as the service layer does
	sig := func(s string) string { return "C15/" + in.cfg() + "/" + s }
	switch op.Kind {
	case "add":
		if op.Var == "recurring-expiring" && in.clock.Now().Unix() >= lib.T0.Add(2*time.Second).Unix() {
			return &lib.Violation{Signature: "prune", Prune: true} // adding an already expired rule: C07's business
		}
		_, err := in.sys.AddRule(ctx, op.Loc, "r", lib.Canon(c15Rule(op.Loc, op.Var)))
		if err != nil {
			return fviol(sig("add-rule-failed"), fmt.Sprintf("[%s] %s: %v", in.cfg(), op, err), "ok", err.Error())
		}
		if old := in.rules[op.Loc]; old.scheduled() && (op.Var == "ordinary") {
			in.ended[op.Loc] = in.how(op.Loc, "replaced-by-ordinary-rule")
		} else if op.Var != "ordinary" {
			delete(in.ended, op.Loc)
		}
		in.rules[op.Loc] = &c15rule{Var: op.Var}
		in.after = ""
	case "addfact":
		if _, err := in.sys.AddFact(ctx, op.Loc, "r", `{"plain":"fact"}`); err != nil {
			return fviol(sig("add-fact-failed"), fmt.Sprintf("[%s] %s: %v", in.cfg(), op, err), "ok", err.Error())
		}
		if in.rules[op.Loc].scheduled() {
			in.ended[op.Loc] = in.how(op.Loc, "overwritten-by-a-fact")
		}
		in.rules[op.Loc] = &c15rule{Var: "fact"}
	case "rem":
		if in.rules[op.Loc] == nil || in.rules[op.Loc].Var == "fact" || in.expired(in.rules[op.Loc]) {
			return &lib.Violation{Signature: "prune", Prune: true} // removing what is not there (or has expired): unspecified
		}
		if _, err := in.sys.RemRule(ctx, op.Loc, "r"); err != nil {
			return fviol(sig("rem-rule-failed"), fmt.Sprintf("[%s] %s: %v", in.cfg(), op, err), "ok", err.Error())
		}
		in.end(op.Loc, "removed")
	case "factc":
		if _, err := in.sys.AddFact(ctx, op.Loc, "c", `{"have":"c"}`); err != nil {
			return fviol(sig("add-fact-failed"), fmt.Sprintf("[%s] %s: %v", in.cfg(), op, err), "ok", err.Error())
		}
		in.haveC[op.Loc] = true
	case "remc":
		if !in.haveC[op.Loc] {
			return &lib.Violation{Signature: "prune", Prune: true}
		}
		if _, err := in.sys.RemFact(ctx, op.Loc, "c"); err != nil {
			return fviol(sig("rem-fact-failed"), fmt.Sprintf("[%s] %s: %v", in.cfg(), op, err), "ok", err.Error())
		}
		in.haveC[op.Loc] = false
		if r := in.rules[op.Loc]; r != nil && r.Var == "recurring-deleteWith-c" {
			in.end(op.Loc, "cascade-deleted")
		}
	case "clear":
		if err := in.sys.ClearLocation(ctx, op.Loc); err != nil {
			return fviol(sig("clear-failed"), fmt.Sprintf("[%s] %s: %v", in.cfg(), op, err), "ok", err.Error())
		}
		if in.rules[op.Loc] != nil {
			in.end(op.Loc, "location-cleared")
		}
		in.haveC[op.Loc] = false
	case "clock":
		in.clock.Advance(3 * time.Second)
	case "restart":
		in.newSystem()
		for _, l := range []string{"A", "B"} {
			if _, err := in.sys.GetLocation(lib.Ctx(), l); err != nil {
				return fviol(sig("load-failed"), fmt.Sprintf("[%s] loading %s after the restart: %v", in.cfg(), l, err), "ok", err.Error())
			}
		}
		in.after = "after-restart"
	case "tick":
		return in.tick(op)
	}
	return nil
}

func (in *c15inst) tick(op c15op) *lib.Violation {
	sig := func(s string) string { return "C15/" + in.cfg() + "/" + s }
	for _, k := range in.cron.Keys() {
		j := in.cron.Job(k)
		if j == nil || j.Location != op.Loc {
			continue
		}
		r := in.rules[op.Loc]
		var want []string
		live := r.scheduled() && !in.expired(r) && j.Id == "r"
		if live && (r.Var != "recurring-if-c" || in.haveC[op.Loc]) {
			want = []string{lib.Canon(fmt.Sprintf("%s:r:%s", op.Loc, r.Var))}
		}
		fr, _ := in.cron.Tick(k)
		got, _ := frValues(fr)
		if lib.Canon(got) != lib.Canon(want) {
			why := "live-rule"
			switch {
			case live:
			case in.expired(r):
				why = "expired"
			case r != nil && r.Var == "ordinary" && in.ended[op.Loc] == "":
				why = "replaced-by-ordinary-rule"
			default:
				why = in.ended[op.Loc]
			}
			if len(want) == 0 {
				return viol(sig("tick-ran-a-rule-that-is-not-scheduled:"+why), fmt.Sprintf("[%s] the tick for %s@%s produced %v; the scheduled rule there is gone (%s)", in.cfg(), j.Id, op.Loc, got, why), want, got)
			}
			return viol(sig("tick-did-not-run-the-live-scheduled-rule"), fmt.Sprintf("[%s] the tick for %s@%s produced %v, expected %v", in.cfg(), j.Id, op.Loc, got, want), want, got)
		}
		if len(want) > 0 {
			in.w.Nontrivial(in.cfg() + "|tick|" + want[0] + "|" + in.after)
		}
		if live && r.Var == "one-shot" {
			in.end(op.Loc, "one-shot-ran")
			rules, err := in.sys.ListRules(lib.Ctx(), op.Loc, false)
			if err == nil && len(rules) > 0 {
				return fviol(sig("one-shot-rule-still-stored-after-it-ran"), fmt.Sprintf("[%s] after its tick the one-shot rule is still listed: %v", in.cfg(), rules), "[]", rules)
			}
		}
	}
	return nil
}

// Battery: registrations == live scheduled rules.
func (in *c15inst) Battery() (vs []*lib.Violation) {
	sig := func(s string) string { return "C15/" + in.cfg() + "/" + s }
	held := map[string]bool{}
	for _, h := range in.cron.Held() {
		held[h] = true
	}
	var locs []string
	for l := range in.rules {
		locs = append(locs, l)
	}
	sort.Strings(locs)
	for _, l := range []string{"A", "B"} {
		r := in.rules[l]
		if in.expired(r) {
			continue // an expired rule's registration is judged by what its tick does
		}
		name := "r@" + l
		if r.scheduled() && !held[name] {
			why := in.after
			other := "B"
			if l == "B" {
				other = "A"
			}
			if in.cronKind == "builtin" && (held["r@"+other] || in.ended[other] != "" || in.rules[other].scheduled()) {
				why = "same-id-used-in-another-location"
			}
			if why == "" {
				why = "after-add"
			}
			vs = append(vs, viol(sig("live-scheduled-rule-is-not-registered:"+why), fmt.Sprintf("[%s] %s holds scheduled rule r (%s) but the cron service has no registration for it (held: %v)", in.cfg(), l, r.Var, in.cron.Held()), name, in.cron.Held()))
		}
		if !r.scheduled() && held[name] {
			why := in.ended[l]
			if why == "" {
				why = "never-scheduled"
			}
			vs = append(vs, viol(sig("registration-outlives-the-scheduled-rule:"+why), fmt.Sprintf("[%s] the cron service still holds %s although the scheduled rule is gone (%s)", in.cfg(), name, why), "no registration", name))
		}
	}
	for h := range held {
		if h != "r@A" && h != "r@B" {
			vs = append(vs, viol(sig("unexpected-registration"), fmt.Sprintf("[%s] unexpected registration %s", in.cfg(), h), nil, h))
		}
	}
	return vs
}

func c15Scenarios(w *lib.Worker) []*lib.Scenario {
	var scs []*lib.Scenario
	for _, kind := range []string{"indexed", "linear"} {
		for _, ck := range []string{"builtin", "external"} {
			for _, two := range []bool{false, true} {
				kind, ck, two := kind, ck, two
				ops := c15Ops(two)
				text := make([]string, len(ops))
				for i, o := range ops {
					text[i] = o.String()
				}
				depth := 5
				if two {
					depth = 4
				}
				if w.Tier == "thorough" {
					depth += 2
				}
				scs = append(scs, &lib.Scenario{
					Name: fmt.Sprintf("C15/%s/%s/locations=%d", kind, ck, map[bool]int{false: 1, true: 2}[two]), Ops: text, MaxDepth: depth,
					Fresh: func() lib.Instance {
						clk := lib.Clock()
						in := &c15inst{kind: kind, cronKind: ck, ops: ops, w: w, clock: clk, rules: map[string]*c15rule{}, haveC: map[string]bool{}, ended: map[string]string{}}
						in.store = lib.MemStore(lib.Ctx())
						in.newSystem()
						return in
					},
				})
			}
		}
	}
	return scs
}

func init() {
	lib.Register(&lib.Check{
		ID:    "C15",
		Level: "model_checking",
		Rule: "explicit-state BFS (one location: depth 5 quick / 7 thorough; two locations sharing rule id r: depth 4 / 6) over AddRule(recurring | recurring with condition | recurring deleteWith c | recurring expiring | one-shot | ordinary), AddFact over the rule id, RemRule, AddFact/RemFact(c), ClearLocation, clock += 3s, restart, tick(L) on a sys.System with a recording Cronner shaped like the built-in cron (ephemeral, keyed by id, ticks to the captured instance) or like the external crolt service (persistent, keyed by location+id), both states; Battery in every state: registrations == live scheduled rules; every tick's action values == the live scheduled rule's in its own location; " +
			"non-trivial = distinct (configuration, tick that ran a rule)",
		Assumptions: []string{
			"the cron service is the harness's recording Cronner (C16 decides the real cron services); LocationTTL forever",
			"an expired rule's registration may remain: only what its tick does is judged",
			"removing an id that holds no rule, and adding an already expired rule, are left to C06/C07",
		},
		Budget: func(tier string) time.Duration {
			if tier == "thorough" {
				return 25 * time.Minute
			}
			return 4 * time.Minute
		},
		Run: func(w *lib.Worker) {
			for _, sc := range c15Scenarios(w) {
				w.BFS(sc)
			}
		},
		ReplayFn: func(w *lib.Worker, raw json.RawMessage) { w.ReplaySeq(raw, c15Scenarios(w)) },
	})
}
