package main

// C07 — expiry is absolute and expired items are never observable.
//
// Engine SEQ under the virtual clock (every time.Now in rulio reads a clock the
// harness owns).  Per scenario (expiry encoding x fact|rule x state): all
// sequences up to the depth bound over {write, re-write, write-already-expired,
// advance the clock to instants around the expiry, reload from storage, get,
// search, search-rules, process-event}.  Oracle: the expiry instant E is fixed
// at write time (now+ttl, or the given instant; read back from the `expires`
// field within a 1 s tolerance of the nominal value and then required never to
// move, through reads and reloads); the item is observable iff now < E in
// whole seconds; once observed at now >= E it is gone from storage; items
// without expiry survive +10 years; a write whose expiry is already past is
// refused and leaves nothing behind.

import (
	"encoding/json"
	"fmt"
	"strings"
	"time"

	"github.com/Comcast/rulio/core"
	"verifharness/lib"
)

type c07enc struct {
	Name string
	// nominal offset of the expiry from the write instant (0 = never)
	Nominal time.Duration
	// Absolute: the encoding names an instant (whole seconds) instead of a duration
	Absolute bool
	// Put adds the expiry to m given the write instant
	Put func(m map[string]interface{}, now time.Time)
}

var c07Encs = []c07enc{
	{"expires-number", 2 * time.Second, true, func(m map[string]interface{}, now time.Time) {
		m["expires"] = float64(now.Add(2 * time.Second).Unix())
	}},
	{"expires-rfc3339", 2 * time.Second, true, func(m map[string]interface{}, now time.Time) {
		m["expires"] = now.Add(2 * time.Second).UTC().Format(time.RFC3339)
	}},
	{"ttl-2s", 2 * time.Second, false, func(m map[string]interface{}, now time.Time) { m["ttl"] = "2s" }},
	{"ttl-1500ms", 1500 * time.Millisecond, false, func(m map[string]interface{}, now time.Time) { m["ttl"] = "1500ms" }},
	{"ttl-number-2", 2 * time.Second, false, func(m map[string]interface{}, now time.Time) { m["ttl"] = 2.0 }},
	{"none", 0, false, func(m map[string]interface{}, now time.Time) {}},
}

// instants the clock can be advanced to (offsets from T0)
var c07Instants = []time.Duration{
	500 * time.Millisecond,
	1*time.Second - time.Nanosecond,
	1 * time.Second,
	2*time.Second - time.Nanosecond,
	2 * time.Second,
	3 * time.Second,
	4*time.Second - time.Nanosecond,
	4 * time.Second,
	10 * 365 * 24 * time.Hour,
}

type c07op struct {
	Kind string // write past advance reload get search rules event
	Idx  int
}

func c07Ops() []c07op {
	ops := []c07op{{"get", 0}, {"search", 0}, {"rules", 0}, {"event", 0}, {"write", 0}, {"past", 0}, {"past-boundary", 0}, {"reload", 0},
		// the same observations while the storage refuses the next mutating call (the
		// lazy purge of an expired item): the item must stay unobservable all the same
		{"get!", 0}, {"search!", 0}, {"rules!", 0}, {"event!", 0}}
	for i := range c07Instants {
		ops = append(ops, c07op{"advance", i})
	}
	return ops
}

func (o c07op) String() string {
	if o.Kind == "advance" {
		return fmt.Sprintf("clock:=T0+%v", c07Instants[o.Idx])
	}
	return o.Kind
}

type c07inst struct {
	enc    c07enc
	rule   bool
	kind   string
	ops    []c07op
	clock  interface{ Now() time.Time }
	set    func(time.Time)
	ctx    *core.Context
	store  *core.MemStorage
	rec    *lib.RecStore // what the location writes through (fault injection)
	faulty bool          // the current observation runs with a storage fault armed
	loc    *core.Location
	w      *lib.Worker
	stored bool      // model: item x written and not yet known-expired-and-observed
	nomE   time.Time // nominal expiry instant of the last write (zero = never)
	never  bool
	obsE   int64 // expiry instant read back from the implementation (0 = not yet read)
	writes int
}

func (in *c07inst) Close() {}

func (in *c07inst) cfg() string {
	k := "fact"
	if in.rule {
		k = "rule"
	}
	return fmt.Sprintf("%s/%s/%s", in.kind, k, in.enc.Name)
}

func (in *c07inst) Key() string {
	return fmt.Sprintf("%v|%v|%d|%d|%d|%s|%s", in.stored, in.nomE.UnixNano(), in.obsE, in.clock.Now().UnixNano(), in.writes,
		core.VerifKeyJSON(in.loc.VerifState()), lib.Canon(lib.Pairs(in.ctx, in.store, "L")))
}

// visibility per the property: 1 = must be visible, 0 = must be invisible, -1 = inside the tolerance window
func (in *c07inst) mustBeVisible() int {
	if !in.stored {
		return 0
	}
	if in.never {
		return 1
	}
	now := in.clock.Now()
	if in.obsE != 0 {
		if now.Unix() < in.obsE {
			return 1
		}
		return 0
	}
	if !now.After(in.nomE.Add(-time.Second)) {
		return 1
	}
	if !now.Before(in.nomE.Add(time.Second)) {
		return 0
	}
	return -1
}

func (in *c07inst) noteExpires(x interface{}, via string) *lib.Violation {
	if in.never {
		if x != nil {
			if f, ok := x.(float64); !ok || f != 0 {
				return viol("C07/"+in.kind+"/expiry-appeared-on-item-without-expiry", fmt.Sprintf("[%s] %s shows expires=%v for an item written without expiry", in.cfg(), via, x), nil, x)
			}
		}
		return nil
	}
	var e int64
	switch v := x.(type) {
	case float64:
		e = int64(v)
	case int64:
		e = v
	case int:
		e = int64(v)
	default:
		return viol("C07/"+in.kind+"/expires-field-not-canonical", fmt.Sprintf("[%s] %s returns expires=%#v (want UNIX seconds)", in.cfg(), via, x), "number", fmt.Sprintf("%#v", x))
	}
	// |E - (write instant + ttl)| < 1 s, in integer nanoseconds
	if d := e*1e9 - in.nomE.UnixNano(); d >= 1e9 || d <= -1e9 {
		sig := "C07/" + in.kind + "/expiry-instant-wrong"
		return viol(sig, fmt.Sprintf("[%s] %s shows expires=%d but the item was written to expire at T0+%v", in.cfg(), via, e, in.nomE.Sub(lib.T0)), in.nomE.Unix(), e)
	}
	if in.obsE == 0 {
		in.obsE = e
	} else if in.obsE != e {
		return viol("C07/"+in.kind+"/expiry-instant-moved", fmt.Sprintf("[%s] %s shows expires=%d, earlier it was %d", in.cfg(), via, e, in.obsE), in.obsE, e)
	}
	return nil
}

func (in *c07inst) afterObservation(via string) *lib.Violation {
	// once observed at/after expiry, the item must be gone from storage (unless the
	// storage was made to refuse the purge during this very observation)
	if in.stored && !in.never && in.mustBeVisible() == 0 && !in.faulty {
		if _, have := lib.Pairs(in.ctx, in.store, "L")["x"]; have {
			return viol("C07/"+in.kind+"/expired-item-left-in-storage", fmt.Sprintf("[%s] after %s at T0+%v (expiry T0+%v) storage still holds the item", in.cfg(), via, in.clock.Now().Sub(lib.T0), in.nomE.Sub(lib.T0)), "purged", "present")
		}
	}
	return nil
}

func (in *c07inst) observe(kind string) *lib.Violation {
	vis := in.mustBeVisible()
	at := fmt.Sprintf("T0+%v", in.clock.Now().Sub(lib.T0))
	seen := false
	var expField interface{}
	via := kind
	switch kind {
	case "get":
		if in.rule {
			via = "GetRule"
			r, err := in.loc.GetRule(in.ctx, "x")
			if err == nil {
				seen = true
				expField = r["expires"]
			} else if lib.ErrClass(err) != "notfound" {
				return in.obsErr(via, err)
			}
		} else {
			via = "GetFact"
			f, err := in.loc.GetFact(in.ctx, "x")
			if err == nil {
				seen = true
				expField = f["expires"]
			} else if lib.ErrClass(err) != "notfound" {
				return in.obsErr(via, err)
			}
		}
	case "search":
		via = "SearchFacts"
		pat := core.Map{"k": "?v"}
		if in.rule {
			pat = core.Map{"rule": "?r"}
		}
		sr, err := in.loc.SearchFacts(in.ctx, pat, false)
		if err != nil {
			return in.obsErr(via, err)
		}
		for _, f := range sr.Found {
			if f.Id == "x" {
				seen = true
				var m map[string]interface{}
				json.Unmarshal([]byte(f.Js), &m)
				expField = m["expires"]
			}
		}
	case "rules":
		if !in.rule {
			return nil
		}
		via = "SearchRules"
		rs, err := in.loc.SearchRules(in.ctx, core.Map{"e": "v"}, false)
		if err != nil {
			return in.obsErr(via, err)
		}
		if r, ok := rs["x"]; ok {
			seen = true
			expField = r.Expires
		}
	case "event":
		if !in.rule {
			return nil
		}
		via = "ProcessEvent"
		fr, cond := in.loc.ProcessEvent(in.ctx, core.Map{"e": "v"})
		if cond != nil {
			return in.obsErr(via, cond)
		}
		for _, ch := range fr.Children {
			if ch.Rule.Id == "x" {
				seen = true
				expField = ch.Rule.Expires
			}
		}
	}
	switch {
	case vis == 1 && !seen:
		return viol("C07/"+in.kind+"/live-item-not-observable", fmt.Sprintf("[%s] %s at %s does not show the item, which expires at T0+%v", in.cfg(), via, at, in.nomE.Sub(lib.T0)), "visible", "absent")
	case vis == 0 && seen:
		what := "an item that was never written / already purged"
		if in.stored {
			what = fmt.Sprintf("the item although it expired at T0+%v", in.nomE.Sub(lib.T0))
		}
		return viol("C07/"+in.kind+"/expired-item-observable", fmt.Sprintf("[%s] %s at %s shows %s", in.cfg(), via, at, what), "absent", "visible")
	}
	if seen && in.stored {
		if v := in.noteExpires(expField, via); v != nil {
			return v
		}
		in.w.Nontrivial(in.cfg() + "|" + via + "|" + at)
	}
	return in.afterObservation(via)
}

func (in *c07inst) obsErr(via string, err error) *lib.Violation {
	if in.faulty {
		// an observation may fail when its storage does; it showed nothing
		return nil
	}
	sig := "C07/" + in.kind + "/observation-error"
	if strings.Contains(err.Error(), "bad 'expires'") {
		sig = "C07/" + in.kind + "/reloaded-non-canonical-expires-breaks-reads"
	}
	return viol(sig, fmt.Sprintf("[%s] %s at T0+%v failed: %v", in.cfg(), via, in.clock.Now().Sub(lib.T0), err), "result", err.Error())
}

func (in *c07inst) item(now time.Time, past bool) (map[string]interface{}, bool) {
	return in.itemAt(now, past, false)
}

// itemAt: boundary = the expiry is the current second itself (already expired:
// an item is observable iff now < expiry in whole seconds).
func (in *c07inst) itemAt(now time.Time, past, boundary bool) (map[string]interface{}, bool) {
	var m map[string]interface{}
	if in.rule {
		m = map[string]interface{}{
			"when":   map[string]interface{}{"pattern": map[string]interface{}{"e": "?e"}},
			"action": map[string]interface{}{"code": "1"},
		}
	} else {
		m = map[string]interface{}{"k": "v"}
	}
	if past {
		m["expires"] = float64(now.Unix() - 1)
		if boundary {
			m["expires"] = float64(now.Unix())
		}
		return m, true
	}
	in.enc.Put(m, now)
	return m, in.enc.Nominal != 0
}

func (in *c07inst) Apply(opi int) *lib.Violation {
	op := in.ops[opi]
	now := in.clock.Now()
	switch op.Kind {
	case "get", "search", "rules", "event":
		return in.observe(op.Kind)
	case "get!", "search!", "rules!", "event!":
		in.rec.FailAt = in.rec.Mutations()
		in.faulty = true
		v := in.observe(strings.TrimSuffix(op.Kind, "!"))
		in.faulty = false
		in.rec.FailAt = -1
		return v
	case "advance":
		in.set(lib.T0.Add(c07Instants[op.Idx]))
	case "reload":
		loc, err := lib.NewLoc(in.ctx, in.kind, "L", in.rec)
		if err != nil {
			return fviol("C07/"+in.kind+"/reload-failed", fmt.Sprintf("[%s] reload at T0+%v failed: %v", in.cfg(), now.Sub(lib.T0), err), "ok", err.Error())
		}
		in.loc = loc
	case "write", "past", "past-boundary":
		m, _ := in.itemAt(now, op.Kind != "write", op.Kind == "past-boundary")
		id := "x"
		if op.Kind != "write" {
			id = "y"
		}
		var err error
		if in.rule {
			_, err = in.loc.AddRule(in.ctx, id, core.Map(m))
		} else {
			_, err = in.loc.AddFact(in.ctx, id, core.Map(m))
		}
		if op.Kind != "write" {
			if err == nil {
				when := "one second in the past"
				if op.Kind == "past-boundary" {
					when = "the current second"
				}
				return fviol("C07/"+in.kind+"/already-expired-write-accepted", fmt.Sprintf("[%s] writing an item whose expiry is %s succeeded", in.cfg(), when), "error", "ok")
			}
			if _, have := lib.Pairs(in.ctx, in.store, "L")["y"]; have {
				return fviol("C07/"+in.kind+"/rejected-expired-write-left-in-storage", fmt.Sprintf("[%s] rejected already-expired write is in storage", in.cfg()), nil, nil)
			}
			for _, fid := range core.VerifFactIds(in.loc.VerifState()) {
				if fid == "y" {
					return fviol("C07/"+in.kind+"/rejected-expired-write-left-in-memory", fmt.Sprintf("[%s] rejected already-expired write is held in memory", in.cfg()), nil, nil)
				}
			}
			return nil
		}
		if err != nil {
			return fviol("C07/"+in.kind+"/write-failed", fmt.Sprintf("[%s] write at T0+%v failed: %v", in.cfg(), now.Sub(lib.T0), err), "ok", err.Error())
		}
		in.stored = true
		in.writes++
		in.obsE = 0
		in.never = in.enc.Nominal == 0
		in.nomE = now.Add(in.enc.Nominal)
		if in.enc.Absolute {
			in.nomE = time.Unix(now.Add(in.enc.Nominal).Unix(), 0)
		}
	}
	return nil
}

func (in *c07inst) Battery() (vs []*lib.Violation) {
	for _, k := range []string{"get", "search", "rules", "event", "get"} {
		if v := in.observe(k); v != nil {
			vs = append(vs, v)
		}
	}
	return vs
}

func c07Scenarios(w *lib.Worker) []*lib.Scenario {
	ops := c07Ops()
	text := make([]string, len(ops))
	for i, o := range ops {
		text[i] = o.String()
	}
	depth := 5
	if w.Tier == "thorough" {
		depth = 7
	}
	var scs []*lib.Scenario
	for _, enc := range c07Encs {
		for _, rule := range []bool{false, true} {
			for _, kind := range []string{"indexed", "linear"} {
				enc, rule, kind := enc, rule, kind
				if rule && enc.Name == "expires-rfc3339" {
					// outside AddRule's input domain: Rule.Expires is a number in the rule
					// schema and AddRule validates the rule before canonicalising expiry
					continue
				}
				k := "fact"
				if rule {
					k = "rule"
				}
				scs = append(scs, &lib.Scenario{
					Name: fmt.Sprintf("C07-%s-%s-%s", kind, k, enc.Name), Ops: text, MaxDepth: depth,
					Fresh: func() lib.Instance {
						clk := lib.Clock()
						ctx := lib.Ctx()
						store := lib.MemStore(ctx)
						rec := lib.NewRecStore(store)
						return &c07inst{enc: enc, rule: rule, kind: kind, ops: ops, clock: clk, set: clk.Set, ctx: ctx, store: store, rec: rec,
							loc: lib.MustLoc(ctx, kind, "L", rec), w: w}
					},
					Enabled: func(path []int, op int) bool {
						o := ops[op]
						switch o.Kind {
						case "write":
							n := 0
							for _, p := range path {
								if ops[p].Kind == "write" {
									n++
								}
							}
							return n < 2
						case "advance":
							// only forwards
							cur := time.Duration(0)
							for _, p := range path {
								if ops[p].Kind == "advance" && c07Instants[ops[p].Idx] > cur {
									cur = c07Instants[ops[p].Idx]
								}
							}
							return c07Instants[o.Idx] > cur
						}
						return true
					},
				})
			}
		}
	}
	return scs
}

func init() {
	lib.Register(&lib.Check{
		ID:    "C07",
		Level: "model_checking",
		Rule: "explicit-state BFS under a harness-owned virtual clock: 6 expiry encodings x {fact, rule} x {indexed, linear}; alphabet {write, write-already-expired, clock:=T0+{0.5s,1s-1ns,1s,2s-1ns,2s,3s,4s-1ns,4s,10y}, reload, get, search, search-rules, process-event}, depth 5 quick / 7 thorough, full observation battery in every state; " +
			"non-trivial = distinct (configuration, observation, instant) at which a live expiring item was observed with its expiry instant checked",
		Assumptions: []string{
			"every clock read in rulio goes through the rewritten time import (checked by the instr report: all `time` imports swapped)",
			"the expiry instant may differ from now+ttl by less than 1 s (whole-second granularity)",
		},
		Shards: func(string) int { return 16 },
		Budget: func(tier string) time.Duration {
			if tier == "thorough" {
				return 25 * time.Minute
			}
			return 4 * time.Minute
		},
		Run: func(w *lib.Worker) {
			for i, sc := range c07Scenarios(w) {
				// shard by scenario, not by first op (24 scenarios over 16 workers)
				if i%w.NShards != w.Shard {
					continue
				}
				w.BFSAll(sc)
			}
		},
		ReplayFn: func(w *lib.Worker, raw json.RawMessage) { w.ReplaySeq(raw, c07Scenarios(w)) },
	})
}
