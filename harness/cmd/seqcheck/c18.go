package main

// C18 — the service layer is a faithful, encoding-independent rendering of the API.
//
// Engine GEN (differential): every logical request of a bounded language -
// the /api/loc/* operations x generated arguments (ids, locations and values that
// need URL / JSON / YAML escaping) x two set-up histories - is sent to a
// service.HTTPService (ServeHTTP, httptest) in every encoding that can express
// it {JSON body, /api/json envelope, query string, form body, YAML body,
// /api/yaml envelope, batch element, location-in-query + JSON body} x URI
// spelling {/api/loc/.., /loc/.., /v1.0/loc/.., /2/api/loc/..}, each on a fresh
// service world, and directly to a twin sys.System prepared with the same
// history.  Oracle per (request, encoding): HTTP 200 iff the direct call
// succeeds (400 otherwise); the body parses as JSON and the operation's result
// extracted from it equals the direct result; the location's state (memory dump
// + stored pairs) equals the twin's afterwards.  Ill-formed variants (a required
// parameter dropped, a parameter of the wrong type, an unknown URI) must give
// 400 and leave the state unchanged.

import (
	"bytes"
	"encoding/json"
	"fmt"
	"net/http/httptest"
	"net/url"
	"sort"
	"strings"
	"time"

	"github.com/Comcast/rulio/core"
	"github.com/Comcast/rulio/service"
	"github.com/Comcast/rulio/sys"
	"verifharness/lib"
)

type c18req struct {
	Op     string
	Params map[string]interface{}
	// Bad: this request is ill-formed (must be refused with 400 in every encoding)
	Bad string
}

func (r c18req) String() string {
	s := r.Op + " " + lib.Canon(r.Params)
	if r.Bad != "" {
		s += " [" + r.Bad + "]"
	}
	return s
}

func (r c18req) loc() string {
	l, _ := r.Params["location"].(string)
	return l
}

// jsonTyped: parameters that travel as JSON text in query strings and forms
var c18JSONParams = map[string]bool{"fact": true, "rule": true, "pattern": true, "query": true, "event": true}

// ---- worlds ---------------------------------------------------------------------

type c18world struct {
	sys   *sys.System
	store core.Storage
	http  *service.HTTPService
}

func c18New(kind string) *c18world {
	ctx := lib.Ctx()
	conf := sys.SystemConfig{Storage: "memory", UnindexedState: kind == "linear"}
	cont := sys.SystemControl{LocationTTL: sys.Forever, DefaultLocControl: lib.QuietControl(), CachePending: true}
	cr := lib.NewRecCron(true)
	cr.ByLocation = true
	s, err := sys.NewSystem(ctx, conf, cont, cr)
	if err != nil {
		panic(err)
	}
	w := &c18world{sys: s, store: lib.MemStore(ctx)}
	s.VerifSetStorage(w.store)
	h, err := service.NewHTTPService(ctx, &service.Service{System: s})
	if err != nil {
		panic(err)
	}
	w.http = h
	return w
}

var c18Locs = []string{"L", "L 2&x=y", "üñ/+"}

func (w *c18world) setup(history string) {
	if history == "empty" {
		return
	}
	ctx := lib.Ctx()
	must := func(_ string, err error) {
		if err != nil {
			panic(err)
		}
	}
	for _, l := range c18Locs {
		must(w.sys.AddFact(ctx, l, "f1", `{"k":"v"}`))
		must(w.sys.AddFact(ctx, l, "a b&c=d", `{"k":"a b&c=d%41+","n":{"m":true}}`))
		must(w.sys.AddFact(ctx, l, `q"uote`, `{"ü":"\"q\"","k":["1",2]}`))
		must(w.sys.AddRule(ctx, l, "r1", `{"when":{"pattern":{"e":"?e"}},"action":{"code":"'fired '+e"}}`))
		// an id with characters JSON must escape as \u00XX (Go's %q would not)
		must(w.sys.AddRule(ctx, l, "c\x01tl", `{"when":{"pattern":{"e":"ctl"}},"action":{"code":"'ctl'"}}`))
		must(w.sys.AddRule(ctx, l, "r 2&", `{"when":{"pattern":{"e":"a b&c"}},"condition":{"pattern":{"k":"?k"}},"action":{"code":"'r2'"}}`))
	}
}

func (w *c18world) snapshot() string {
	var sb strings.Builder
	for _, l := range append(append([]string{}, c18Locs...), "new") {
		mem := "(not cached)"
		if loc := w.sys.VerifCachedLocation(l); loc != nil {
			mem = stripUpdated(core.VerifDumpJSON(loc.VerifState()))
		}
		sb.WriteString(l + "=" + mem + "|" + lib.Canon(lib.Pairs(lib.Ctx(), w.store, l)) + "\n")
	}
	return sb.String()
}

func stripUpdated(s string) string { return s }

// ---- the direct call and the result extractors -------------------------------------

func sortedStr(xs []string) string {
	ys := append([]string{}, xs...)
	sort.Strings(ys)
	return fmt.Sprint(ys)
}

func c18Direct(s *sys.System, r c18req) (string, error) {
	ctx := lib.Ctx()
	p := r.Params
	str := func(k string) string { v, _ := p[k].(string); return v }
	js := func(k string) string { return lib.Canon(p[k]) }
	loc := str("location")
	inh, _ := p["inherited"].(bool)
	switch r.Op {
	case "facts/add":
		return s.AddFact(ctx, loc, str("id"), js("fact"))
	case "facts/rem":
		rid, err := s.RemFact(ctx, loc, str("id"))
		return rid + "|" + str("id"), err
	case "facts/get":
		f, err := s.GetFact(ctx, loc, str("id"))
		if err != nil {
			return "", err
		}
		return lib.Canon(lib.JM(f)) + "|" + str("id"), nil
	case "facts/search":
		sr, err := s.SearchFacts(ctx, loc, js("pattern"), inh)
		if err != nil {
			return "", err
		}
		return fmt.Sprint(foundList(sr)), nil
	case "facts/query":
		qr, err := s.Query(ctx, loc, js("query"))
		if err != nil {
			return "", err
		}
		return fmt.Sprint(lib.BindingsSetN(qr.Bss)), nil
	case "facts/take", "facts/replace":
		// documented as: search, remove what was found (then, for replace, add the fact)
		sr, err := s.SearchFacts(ctx, loc, js("pattern"), inh)
		if err != nil {
			return "", err
		}
		for _, f := range sr.Found {
			s.RemFact(ctx, loc, f.Id)
		}
		if r.Op == "facts/take" {
			return fmt.Sprint(foundList(sr)), nil
		}
		return s.AddFact(ctx, loc, str("id"), js("fact"))
	case "rules/add":
		return s.AddRule(ctx, loc, str("id"), js("rule"))
	case "rules/rem":
		rid, err := s.RemRule(ctx, loc, str("id"))
		return rid + "|" + str("id"), err
	case "rules/list":
		ids, err := s.ListRules(ctx, loc, inh)
		return sortedStr(ids), err
	case "rules/disable":
		return "disabled:" + str("id"), s.EnableRule(ctx, loc, str("id"), false)
	case "rules/enable":
		return "enabled:" + str("id"), s.EnableRule(ctx, loc, str("id"), true)
	case "rules/enabled":
		en, err := s.RuleEnabled(ctx, loc, str("id"))
		return fmt.Sprintf("%s|%v", str("id"), en), err
	case "events/ingest":
		fr, err := s.ProcessEvent(ctx, loc, js("event"))
		if err != nil {
			return "", err
		}
		v, rs := frValues(fr)
		return fmt.Sprint(v, rs), nil
	case "parents":
		if set, given := p["set"].(string); given {
			var ps []string
			if err := json.Unmarshal([]byte(set), &ps); err != nil {
				return "", err
			}
			_, err := s.SetParents(ctx, loc, ps)
			return fmt.Sprint(ps), err
		}
		ps, err := s.GetParents(ctx, loc)
		return fmt.Sprint(ps), err
	case "admin/size":
		n, err := s.GetSize(ctx, loc)
		return fmt.Sprint(n), err
	case "admin/clear":
		return "okay", s.ClearLocation(ctx, loc)
	case "admin/create":
		_, err := s.CreateLocation(ctx, loc)
		return "okay", err
	}
	return "", fmt.Errorf("unknown op")
}

// c18Extract pulls the operation's result out of a response body.
func c18Extract(r c18req, body []byte) (string, error) {
	var j map[string]interface{}
	dec := json.NewDecoder(bytes.NewReader(body))
	if err := dec.Decode(&j); err != nil {
		return "", fmt.Errorf("response is not a JSON object: %v", err)
	}
	if dec.More() {
		return "", fmt.Errorf("response has trailing data after the JSON object")
	}
	s := func(k string) string { v, _ := j[k].(string); return v }
	switch r.Op {
	case "facts/add", "rules/add", "facts/replace":
		return s("id"), nil
	case "facts/take":
		var sr core.SearchResults
		if err := json.Unmarshal(body, &sr); err != nil {
			return "", err
		}
		return fmt.Sprint(foundList(&sr)), nil
	case "facts/rem", "rules/rem":
		return s("removed") + "|" + s("given"), nil
	case "facts/get":
		return lib.Canon(j["fact"]) + "|" + s("id"), nil
	case "facts/search":
		var sr core.SearchResults
		if err := json.Unmarshal(body, &sr); err != nil {
			return "", err
		}
		return fmt.Sprint(foundList(&sr)), nil
	case "facts/query":
		var qr core.QueryResult
		if err := json.Unmarshal(body, &qr); err != nil {
			return "", err
		}
		return fmt.Sprint(lib.BindingsSetN(qr.Bss)), nil
	case "rules/list":
		var ids []string
		if xs, ok := j["ids"].([]interface{}); ok {
			for _, x := range xs {
				ids = append(ids, fmt.Sprint(x))
			}
		}
		return sortedStr(ids), nil
	case "rules/disable":
		return "disabled:" + s("disabled"), nil
	case "rules/enable":
		return "enabled:" + s("enabled"), nil
	case "rules/enabled":
		return fmt.Sprintf("%s|%v", s("ruleId"), j["enabled"]), nil
	case "events/ingest":
		b, _ := json.Marshal(j["result"])
		var fr core.FindRules
		if err := json.Unmarshal(b, &fr); err != nil {
			return "", err
		}
		v, rs := frValues(&fr)
		return fmt.Sprint(v, rs), nil
	case "parents":
		var ps []string
		if xs, ok := j["result"].([]interface{}); ok {
			for _, x := range xs {
				ps = append(ps, fmt.Sprint(x))
			}
		}
		return fmt.Sprint(ps), nil
	case "admin/size":
		return fmt.Sprint(j["size"]), nil
	case "admin/clear", "admin/create":
		return s("status"), nil
	}
	return "", fmt.Errorf("unknown op")
}

// ---- encodings --------------------------------------------------------------------------

type c18wire struct {
	Method, URL string
	Body        []byte
	Batch       bool
}

type c18enc struct {
	Name  string
	Build func(uri string, r c18req) (c18wire, bool)
}

func c18Form(r c18req, skip string) (string, bool) {
	q := url.Values{}
	for k, v := range r.Params {
		if k == skip {
			continue
		}
		switch vv := v.(type) {
		case string:
			q.Set(k, vv) // for a JSON-typed parameter this is the ill-typed text itself
		case bool:
			if k != "inherited" {
				return "", false // in a form every value is a string: a boolean for a string parameter cannot be expressed
			}
			q.Set(k, fmt.Sprint(vv))
		default:
			if !c18JSONParams[k] {
				return "", false // an ill-typed plain parameter cannot be expressed in a form
			}
			if _, isMap := v.(map[string]interface{}); !isMap {
				return "", false
			}
			q.Set(k, lib.Canon(v))
		}
	}
	return q.Encode(), true
}

func c18YAML(m map[string]interface{}) []byte {
	// block mapping at the top, JSON flow values (JSON is YAML); one parameter per line
	keys := lib.SortedKeys(m)
	var sb strings.Builder
	for _, k := range keys {
		b, _ := json.Marshal(m[k])
		kb, _ := json.Marshal(k)
		sb.WriteString(string(kb) + ": " + string(b) + "\n")
	}
	return []byte(sb.String())
}

func c18Encodings() []c18enc {
	withURI := func(uri string, r c18req) map[string]interface{} {
		m := lib.CopyMap(r.Params)
		m["uri"] = uri
		return m
	}
	return []c18enc{
		{"json-body", func(uri string, r c18req) (c18wire, bool) {
			b, _ := json.Marshal(r.Params)
			return c18wire{"POST", uri, b, false}, true
		}},
		{"json-envelope", func(uri string, r c18req) (c18wire, bool) {
			b, _ := json.Marshal(withURI(uri, r))
			return c18wire{"POST", "/api/json", b, false}, true
		}},
		{"query-string", func(uri string, r c18req) (c18wire, bool) {
			q, ok := c18Form(r, "")
			return c18wire{"GET", uri + "?" + q, nil, false}, ok
		}},
		{"form-body", func(uri string, r c18req) (c18wire, bool) {
			q, ok := c18Form(r, "")
			if q == "" {
				return c18wire{}, false
			}
			return c18wire{"POST", uri, []byte(q), false}, ok
		}},
		{"yaml-body", func(uri string, r c18req) (c18wire, bool) {
			if len(r.Params) == 0 {
				return c18wire{}, false
			}
			return c18wire{"POST", uri, c18YAML(r.Params), false}, true
		}},
		{"yaml-envelope", func(uri string, r c18req) (c18wire, bool) {
			return c18wire{"POST", "/api/yaml", c18YAML(withURI(uri, r)), false}, true
		}},
		{"batch-element", func(uri string, r c18req) (c18wire, bool) {
			b, _ := json.Marshal(map[string]interface{}{"requests": []interface{}{withURI(uri, r)}})
			return c18wire{"POST", "/api/sys/util/batch", b, true}, true
		}},
		{"location-in-query+json-body", func(uri string, r c18req) (c18wire, bool) {
			l, ok := r.Params["location"].(string)
			if !ok {
				return c18wire{}, false
			}
			m := lib.CopyMap(r.Params)
			delete(m, "location")
			b, _ := json.Marshal(m)
			return c18wire{"POST", uri + "?location=" + url.QueryEscape(l), b, false}, true
		}},
	}
}

var c18Prefixes = []string{"/api/loc/", "/loc/", "/v1.0/loc/", "/2/api/loc/"}

// ---- the request language ---------------------------------------------------------------

func c18Requests(tier string) []c18req {
	P := func(kv ...interface{}) map[string]interface{} {
		m := map[string]interface{}{}
		for i := 0; i+1 < len(kv); i += 2 {
			m[kv[i].(string)] = kv[i+1]
		}
		return m
	}
	ids := []string{"f1", "a b&c=d", `q"uote`, "%41", "ü+", "nope"}
	facts := []interface{}{lib.JM(`{"k":"v"}`), lib.JM(`{"k":"a b&c=d%41+","n":{"m":true}}`), lib.JM(`{"ü":"\"q\"","k":["1",2,null]}`), lib.JM(`{"k":"line\nbreak\ttab"}`), lib.JM(`{}`)}
	patterns := []interface{}{lib.JM(`{"k":"?x"}`), lib.JM(`{"k":"a b&c=d%41+"}`), lib.JM(`{"n":{"m":"?y"}}`), lib.JM(`{"ü":"?u"}`)}
	rules := []interface{}{lib.JM(`{"when":{"pattern":{"e":"?e"}},"action":{"code":"'x'"}}`), lib.JM(`{"when":{"pattern":{"e":"a b&c"}},"action":{"code":"'a&b=c d+%41'"}}`), lib.JM(`{"when":{"pattern":{"e":"?e"}}}`), lib.JM(`{"when":5}`)}
	events := []interface{}{lib.JM(`{"e":"1"}`), lib.JM(`{"e":"a b&c"}`), lib.JM(`{"z":"none"}`)}
	queries := []interface{}{lib.JM(`{"pattern":{"k":"?x"}}`), lib.JM(`{"and":[{"pattern":{"k":"?x"}},{"code":"x == 'v'"}]}`), lib.JM(`{"bogus":1}`)}
	if tier == "thorough" {
		ids = append(ids, "a/b", "x?y#h", " lead", "tr ", "日本", `a\b`, "<t>", "'q'", "a=b", "50%", "tab\there")
		facts = append(facts, lib.JM(`{"a":{"b":{"c":["x",{"d":null}]}}}`), lib.JM(`{"k":"日本 & <t> 'q' \\ /"}`), lib.JM(`{"k":1e3,"j":-0.5,"t":true,"n":null}`), lib.JM(`{"":"empty key","k ":" v"}`))
		patterns = append(patterns, lib.JM(`{"k":["1","?z"]}`), lib.JM(`{"a":{"b":{"c":"?c"}}}`), lib.JM(`{}`))
		events = append(events, lib.JM(`{"e":"日本 & <t>"}`), lib.JM(`{"e":{"deep":["x"]}}`))
		queries = append(queries, lib.JM(`{"or":[{"pattern":{"k":"?x"}},{"pattern":{"n":{"m":"?x"}}}]}`), lib.JM(`{"not":{"pattern":{"zz":"?x"}}}`))
	}
	var out []c18req
	for _, l := range c18Locs {
		for _, id := range ids {
			for _, f := range facts {
				if l != "L" && (id != "a b&c=d" || lib.Canon(f) == "{}") {
					continue
				}
				out = append(out, c18req{Op: "facts/add", Params: P("location", l, "id", id, "fact", f)})
			}
			out = append(out, c18req{Op: "facts/get", Params: P("location", l, "id", id)}, c18req{Op: "facts/rem", Params: P("location", l, "id", id)})
		}
		for _, id := range []string{"r1", "r 2&", "nope", "f1", "c\x01tl"} {
			for _, op := range []string{"rules/rem", "rules/disable", "rules/enable", "rules/enabled"} {
				out = append(out, c18req{Op: op, Params: P("location", l, "id", id)})
			}
		}
		for _, p := range patterns {
			out = append(out, c18req{Op: "facts/search", Params: P("location", l, "pattern", p)}, c18req{Op: "facts/search", Params: P("location", l, "pattern", p, "inherited", true)})
		}
		for _, p := range patterns[:3] {
			out = append(out, c18req{Op: "facts/take", Params: P("location", l, "pattern", p)},
				c18req{Op: "facts/replace", Params: P("location", l, "pattern", p, "id", "new id", "fact", facts[1])})
		}
		for _, q := range queries {
			out = append(out, c18req{Op: "facts/query", Params: P("location", l, "query", q)})
		}
		for _, e := range events {
			out = append(out, c18req{Op: "events/ingest", Params: P("location", l, "event", e)})
		}
		for i, ru := range rules {
			out = append(out, c18req{Op: "rules/add", Params: P("location", l, "id", fmt.Sprintf("n%d &", i), "rule", ru)})
		}
		out = append(out, c18req{Op: "rules/list", Params: P("location", l)}, c18req{Op: "rules/list", Params: P("location", l, "inherited", true)},
			c18req{Op: "parents", Params: P("location", l)}, c18req{Op: "parents", Params: P("location", l, "set", `["L"]`)}, c18req{Op: "parents", Params: P("location", l, "set", `["a b","ü"]`)},
			c18req{Op: "parents", Params: P("location", l, "set", `not json`)},
			c18req{Op: "admin/size", Params: P("location", l)}, c18req{Op: "admin/clear", Params: P("location", l)})
	}
	out = append(out, c18req{Op: "admin/create", Params: P("location", "new")})
	// ill-formed variants
	var bad []c18req
	seen := map[string]bool{}
	for _, r := range out {
		if r.loc() != "L" {
			continue
		}
		for k := range r.Params {
			if k == "inherited" || k == "set" || (k == "id" && (r.Op == "facts/add" || r.Op == "rules/add" || r.Op == "facts/replace")) {
				continue // optional parameters
			}
			key := r.Op + "|drop|" + k
			if !seen[key] {
				seen[key] = true
				m := lib.CopyMap(r.Params)
				delete(m, k)
				bad = append(bad, c18req{Op: r.Op, Params: m, Bad: "required parameter " + k + " missing"})
			}
		}
		for k, v := range r.Params {
			var wrongs []interface{}
			switch v.(type) {
			case string:
				wrongs = []interface{}{5.0, true, map[string]interface{}{"a": "b"}, nil}
			case bool:
				wrongs = []interface{}{5.0, map[string]interface{}{}}
			default:
				wrongs = []interface{}{"a string", "", "5", "{bad", 5.0, []interface{}{"x"}, nil}
			}
			for i, wv := range wrongs {
				key := fmt.Sprintf("%s|type|%s|%d", r.Op, k, i)
				if seen[key] {
					continue
				}
				seen[key] = true
				m := lib.CopyMap(r.Params)
				m[k] = wv
				bad = append(bad, c18req{Op: r.Op, Params: m, Bad: fmt.Sprintf("parameter %s has type %T", k, wv)})
			}
		}
	}
	for _, op := range []string{"nope", "facts/nope", "facts", "facts/add/extra"} {
		bad = append(bad, c18req{Op: op, Params: P("location", "L", "id", "f1", "fact", lib.JM(`{"k":"v"}`)), Bad: "unknown URI"})
	}
	return append(out, bad...)
}

// ---- one comparison ---------------------------------------------------------------------

type c18case struct {
	Kind, History string
	Req           c18req
}

func c18Run(w *lib.Worker, c c18case) {
	pre := "C18/" + c.Kind + "/"
	twin := c18New(c.Kind)
	twin.setup(c.History)
	before := twin.snapshot()
	var want string
	var werr error
	if c.Req.Bad == "" {
		want, werr = c18Direct(twin.sys, c18req{Op: c.Req.Op, Params: lib.DeepCopy(c.Req.Params).(map[string]interface{})})
	}
	after := twin.snapshot()
	report := func(class, encName, uri, detail string, exp, obs interface{}) {
		w.Violation(lib.Violation{Scenario: "C18", Signature: pre + class + ":" + c.Req.Op + ":" + encName,
			Summary:  fmt.Sprintf("[%s, history %s, %s via %s] %s: %s", c.Kind, c.History, uri, encName, c.Req, detail),
			Expected: exp, Observed: obs,
			Replay: map[string]interface{}{"kind": c.Kind, "history": c.History, "req": c.Req.String()}})
	}
	for _, enc := range c18Encodings() {
		for pi, prefix := range c18Prefixes {
			if pi > 0 && c.Req.Bad != "" && c.Req.Bad != "unknown URI" {
				continue // ill-formed variants: canonical spelling only
			}
			uri := prefix + c.Req.Op
			wire, ok := enc.Build(uri, c18req{Op: c.Req.Op, Params: lib.DeepCopy(c.Req.Params).(map[string]interface{})})
			if !ok {
				continue
			}
			sw := c18New(c.Kind)
			sw.setup(c.History)
			var body *bytes.Reader
			if wire.Body != nil {
				body = bytes.NewReader(wire.Body)
			} else {
				body = bytes.NewReader(nil)
			}
			req := httptest.NewRequest(wire.Method, "http://rulio.test"+wire.URL, body)
			rec := httptest.NewRecorder()
			panicked := ""
			func() {
				defer func() {
					if x := recover(); x != nil {
						panicked = fmt.Sprint(x)
					}
				}()
				sw.http.ServeHTTP(rec, req)
			}()
			w.Eval(1)
			w.AddTrans(1)
			if panicked != "" {
				report("handler-panicked", enc.Name, uri, "the handler panicked: "+panicked, "a response", panicked)
				continue
			}
			code := rec.Code
			out := bytes.TrimSpace(rec.Body.Bytes())
			if wire.Batch {
				// the batch answers 200 with an array holding one element: the response or {"error":..}
				var arr []json.RawMessage
				if err := json.Unmarshal(out, &arr); err != nil || len(arr) != 1 {
					if c.Req.Bad != "" || werr != nil {
						// a failing element may break the array only by being an error text: require JSON still
						report("batch-response-is-not-a-json-array-of-one", enc.Name, uri, fmt.Sprintf("HTTP %d, body %s", code, trunc13(string(out))), "[<element>]", string(out))
					} else {
						report("batch-response-is-not-a-json-array-of-one", enc.Name, uri, fmt.Sprintf("HTTP %d, body %s", code, trunc13(string(out))), "[<element>]", string(out))
					}
					continue
				}
				out = arr[0]
				var probe map[string]interface{}
				if json.Unmarshal(out, &probe) == nil {
					if _, isErr := probe["error"]; isErr && len(probe) == 1 {
						code = 400
					}
				}
			}
			failing := c.Req.Bad != "" || werr != nil
			switch {
			case failing && code == 200:
				why := c.Req.Bad
				if why == "" {
					why = "the direct call fails: " + werr.Error()
				}
				report("failing-request-answered-with-success", enc.Name, uri, fmt.Sprintf("HTTP %d %s although %s", code, trunc13(string(out)), why), 400, code)
			case failing && code != 400:
				report("failing-request-not-answered-with-400", enc.Name, uri, fmt.Sprintf("HTTP %d", code), 400, code)
			case !failing && code != 200:
				report("valid-request-refused", enc.Name, uri, fmt.Sprintf("HTTP %d %s; the direct call returns %s", code, trunc13(string(out)), trunc13(want)), 200, code)
			case !failing:
				got, err := c18Extract(c.Req, out)
				if err != nil {
					report("response-is-not-json", enc.Name, uri, fmt.Sprintf("%v: %s", err, trunc13(string(out))), "a JSON object", string(out))
				} else if got != want {
					report("result-differs-from-direct-call", enc.Name, uri, fmt.Sprintf("the response carries %s, the direct call returns %s", trunc13(got), trunc13(want)), want, got)
				} else {
					w.Nontrivial(c.Kind + "|" + c.History + "|" + c.Req.String() + "|" + enc.Name)
				}
			}
			snap := sw.snapshot()
			expect := after
			if failing && c.Req.Bad != "" {
				expect = before
			}
			if failing && c.Req.Op == "facts/replace" {
				// replace is documented as take followed by add, not atomic: a refused
				// replace may already have taken; the statement asks for the error only
				continue
			}
			if snap != expect {
				report("state-differs-from-direct-call", enc.Name, uri, "after the request the location's memory/storage differs from the twin's", expect, snap)
			}
		}
	}
	w.AddTraces(1)
	w.AddStates(1)
}

func c18Cases(tier string) []c18case {
	var out []c18case
	for _, kind := range []string{"indexed", "linear"} {
		for _, h := range []string{"populated", "empty"} {
			for _, r := range c18Requests(tier) {
				if h == "empty" && (r.Bad != "" || r.loc() != "L") {
					continue
				}
				out = append(out, c18case{kind, h, r})
			}
		}
	}
	return out
}

func init() {
	lib.Register(&lib.Check{
		ID:    "C18",
		Level: "model_checking",
		Rule: "bounded-exhaustive differential enumeration: every logical request (17 /api/loc operations x ids / locations / facts / patterns / rules / events / queries that need URL, JSON and YAML escaping, on a populated and an empty system) x every encoding that can express it (JSON body, /api/json envelope, query string, form body, YAML body, /api/yaml envelope, batch element, location in the query + JSON body) x 4 URI spellings, each on a fresh service world through HTTPService.ServeHTTP, against the direct call on a twin sys.System; plus ill-formed variants (each required parameter dropped, each parameter with 2-4 wrong types, unknown URIs); both states; " +
			"states = traces = logical requests (x history x state), transitions = evaluations = HTTP requests executed and compared, non-trivial = (request, encoding) pairs whose successful result equalled the direct call's",
		Assumptions: []string{
			"ids are always given (generated ids differ between worlds)",
			"a batch element counts as refused when it is an object holding only an error",
			"volatile response fields (context id) are ignored",
			"facts/take and facts/replace have no single System call: the twin runs search, remove the found facts, (add); a refused replace may already have taken (documented as not atomic), every other refused request must leave the state untouched",
		},
		Budget: func(tier string) time.Duration {
			if tier == "thorough" {
				return 20 * time.Minute
			}
			return 5 * time.Minute
		},
		Run: func(w *lib.Worker) {
			lib.Clock()
			for i, c := range c18Cases(w.Tier) {
				if i%w.NShards != w.Shard {
					continue
				}
				if w.TimeUp() {
					w.Cap("time budget reached")
					w.SetExhaustive(false)
					return
				}
				w.Journal(lib.Canon(map[string]interface{}{"kind": c.Kind, "history": c.History, "req": c.Req.String()}))
				c18Run(w, c)
				if i%211 == 0 {
					w.Sample(map[string]interface{}{"kind": c.Kind, "history": c.History, "request": c.Req.String()})
				}
			}
		},
		CrashIsViolation: true,
		CrashSignature: func(j string) (string, string) {
			return "C18/worker-died", "the process died while serving " + trunc13(j)
		},
		ReplayFn: func(w *lib.Worker, raw json.RawMessage) {
			var rp struct{ Kind, History, Req string }
			json.Unmarshal(raw, &rp)
			lib.Clock()
			for _, c := range c18Cases("thorough") {
				if c.Kind == rp.Kind && c.History == rp.History && c.Req.String() == rp.Req {
					c18Run(w, c)
				}
			}
		},
	})
}
