package main

// C09 — locations are isolated except through declared parents.
//
// Engine SEQ over three locations {A,B,C}.  Alphabet: AddFact / RemFact /
// AddRule / RemRule per location, SetParents(X, ps) for every ps of size <= 2
// (self-loops, 2- and 3-cycles, chains, fans, diamonds), ProcessEvent(X).  The
// rule is a "writer": a pattern condition over inherited facts and an action
// that calls Env.AddFact — its effects must land in the location the event was
// sent to.  Driven through core.SimpleLocationProvider and through sys.System.
// Oracle after every step, for every location: (i) tree-shaped ancestry =>
// inherited searches / rule candidates / queries = own + transitive parents',
// immediately after a parent change; (ii) ancestry containing a cycle =>
// inherited operations return an error (and return at all); (iii) the
// privileged snapshot of every location other than the one operated on is
// unchanged by the operation.

import (
	"encoding/json"
	"fmt"
	"sort"
	"strings"
	"time"

	"github.com/Comcast/rulio/core"
	"github.com/Comcast/rulio/sys"
	"verifharness/lib"
)

var c09Locs = []string{"A", "B", "C"}

type c09op struct {
	Kind string // addfact remfact addrule remrule parents event clear addshared remshared
	Loc  string
	Ps   []string
}

func (o c09op) String() string {
	switch o.Kind {
	case "parents":
		return fmt.Sprintf("SetParents(%s,%v)", o.Loc, o.Ps)
	case "event":
		return fmt.Sprintf("ProcessEvent(%s,{e:1})", o.Loc)
	}
	return fmt.Sprintf("%s(%s)", o.Kind, o.Loc)
}

func c09Ops() []c09op {
	var ops []c09op
	for _, l := range c09Locs {
		ops = append(ops, c09op{"event", l, nil})
	}
	for _, l := range c09Locs {
		ops = append(ops, c09op{"addfact", l, nil}, c09op{"remfact", l, nil}, c09op{"addrule", l, nil}, c09op{"remrule", l, nil})
	}
	// a fact id used in more than one location (ids are unique within a location only)
	for _, l := range []string{"A", "C"} {
		ops = append(ops, c09op{"addshared", l, nil}, c09op{"remshared", l, nil})
	}
	// clearing a location also forgets its parent set (the set is a property fact)
	ops = append(ops, c09op{"clear", "C", nil}, c09op{"clear", "B", nil})
	sets := [][]string{{}, {"A"}, {"B"}, {"C"}, {"A", "B"}, {"A", "C"}, {"B", "C"}}
	for _, l := range c09Locs {
		for _, ps := range sets {
			ops = append(ops, c09op{"parents", l, ps})
		}
	}
	return ops
}

func c09Writer() map[string]interface{} {
	// serialActions: the actions of one rule otherwise run concurrently, which is
	// C04/C12's subject (and not deterministic under a sequential engine)
	return lib.JM(`{"when":{"pattern":{"e":"?e"}},
		"condition":{"pattern":{"k":"?k"}},
		"policies":{"serialActions":true},
		"action":{"code":"Env.AddFact('m-'+location+'-'+ruleId+'-'+k, {made:k}); 'm-'+location+'-'+ruleId+'-'+k"}}`)
}

type c09inst struct {
	w       *lib.Worker
	world   World
	ops     []c09op
	facts   map[string]map[string]map[string]interface{}
	rules   map[string]map[string]bool
	parents map[string][]string
}

func (in *c09inst) Close() { in.world.Close() }

func (in *c09inst) Key() string {
	var sb strings.Builder
	sb.WriteString(lib.Canon(in.facts) + lib.Canon(in.rules) + lib.Canon(in.parents))
	for _, l := range c09Locs {
		sb.WriteString("|" + in.world.KeySnapshot(l))
	}
	return sb.String()
}

// ancestry of x: transitive parents in visiting order; cycle / diamond flags.
func (in *c09inst) ancestry(x string) (anc []string, cycle, diamond bool) {
	seen := map[string]int{}
	var walk func(n string, stack map[string]bool)
	walk = func(n string, stack map[string]bool) {
		if cycle {
			return
		}
		for _, p := range in.parents[n] {
			if stack[p] || p == n {
				cycle = true
				return
			}
			seen[p]++
			if seen[p] > 1 {
				diamond = true
			} else {
				anc = append(anc, p)
			}
			stack[p] = true
			walk(p, stack)
			delete(stack, p)
		}
	}
	walk(x, map[string]bool{x: true})
	return
}

func stripCached(snap string) string {
	i := strings.Index(snap, "|")
	if i < 0 {
		return snap
	}
	var m map[string]interface{}
	if json.Unmarshal([]byte(snap[:i]), &m) != nil {
		return snap
	}
	delete(m, "cached")
	return lib.Canon(m) + snap[i:]
}

func (in *c09inst) visibleFacts(x string, inherited bool) map[string]map[string]interface{} {
	out := map[string]map[string]interface{}{}
	locs := []string{x}
	if inherited {
		anc, _, _ := in.ancestry(x)
		locs = append(locs, anc...)
	}
	for _, l := range locs {
		for id, f := range in.facts[l] {
			out[l+"/"+id] = f // ids are unique within a location only
		}
	}
	return out
}

func expectedFound(facts map[string]map[string]interface{}, pattern map[string]interface{}) []string {
	var out []string
	for _, id := range lib.SortedKeys(facts) {
		bss, err := core.Matches(nil, lib.CopyMap(pattern), lib.CopyMap(facts[id]))
		if err == nil && len(bss) > 0 {
			out = append(out, id[strings.Index(id, "/")+1:]+"="+strings.Join(lib.BindingsSetN(bss), ";"))
		}
	}
	sort.Strings(out)
	return out
}

func (in *c09inst) checkLoc(x string) (vs []*lib.Violation) {
	wn := in.world.Name()
	_, cycle, diamond := in.ancestry(x)
	topo := fmt.Sprintf("parents A=%v B=%v C=%v", in.parents["A"], in.parents["B"], in.parents["C"])
	cmp := func(what string, got []string, err error, want []string, inherited bool) {
		switch {
		case inherited && cycle:
			if err == nil {
				vs = append(vs, viol("C09/"+wn+"/ancestor-loop-not-reported", fmt.Sprintf("[%s] %s on %s succeeded although its parent chain loops (%s)", wn, what, x, topo), "error", got))
			}
		case inherited && diamond:
			in.w.Count("diamond_observations_skipped", 1)
		case err != nil:
			vs = append(vs, viol("C09/"+wn+"/operation-failed", fmt.Sprintf("[%s] %s on %s failed: %v (%s)", wn, what, x, err, topo), want, err.Error()))
		case strings.Join(got, "\n") != strings.Join(want, "\n"):
			missing, extra := diffSets(want, got)
			kind := "differs"
			if len(extra) == 0 {
				kind = "misses-own-or-inherited"
			} else if len(missing) == 0 {
				kind = "shows-foreign-data"
			}
			vs = append(vs, viol("C09/"+wn+"/"+strings.SplitN(what, "(", 2)[0]+"-"+kind, fmt.Sprintf("[%s] %s on %s = %v, expected %v (%s)", wn, what, x, got, want, topo), want, got))
		default:
			if len(want) > 0 && inherited {
				in.w.Nontrivial(wn + "|" + what + "|" + x + "|" + topo + "|" + strings.Join(want, ","))
			}
		}
	}
	pk := lib.JM(`{"k":"?k"}`)
	pm := lib.JM(`{"made":"?m"}`)
	got, err := in.world.SearchFacts(x, pk, true)
	cmp("SearchFacts({k:?k},inherited)", got, err, expectedFound(in.visibleFacts(x, true), pk), true)
	got, err = in.world.SearchFacts(x, pk, false)
	cmp("SearchFacts({k:?k},local)", got, err, expectedFound(in.visibleFacts(x, false), pk), false)
	got, err = in.world.SearchFacts(x, pm, true)
	cmp("SearchFacts({made:?m},inherited)", got, err, expectedFound(in.visibleFacts(x, true), pm), true)
	// rules
	var wantRules []string
	anc, _, _ := in.ancestry(x)
	for _, l := range append([]string{x}, anc...) {
		for id := range in.rules[l] {
			wantRules = append(wantRules, id)
		}
	}
	sort.Strings(wantRules)
	got, err = in.world.SearchRules(x, lib.JM(`{"e":"1"}`), true)
	cmp("SearchRules(inherited)", got, err, wantRules, true)
	// query
	var wantQ []string
	for _, f := range expectedFound(in.visibleFacts(x, true), pk) {
		wantQ = append(wantQ, f[strings.Index(f, "=")+1:])
	}
	sort.Strings(wantQ)
	got, err = in.world.Query(x, lib.JM(`{"pattern":{"k":"?k"}}`))
	cmp("Query({pattern:{k:?k}})", got, err, wantQ, true)
	ps, err := in.world.GetParents(x)
	if err != nil || strings.Join(ps, ",") != strings.Join(in.parents[x], ",") {
		vs = append(vs, viol("C09/"+wn+"/getparents-wrong", fmt.Sprintf("[%s] GetParents(%s)=%v,%v expected %v", wn, x, ps, err, in.parents[x]), in.parents[x], ps))
	}
	return vs
}

func (in *c09inst) Apply(opi int) *lib.Violation {
	op := in.ops[opi]
	wn := in.world.Name()
	before := map[string]string{}
	for _, l := range c09Locs {
		if l != op.Loc {
			before[l] = stripCached(in.world.Snapshot(l))
		}
	}
	var res *lib.Violation
	fail := func(err error) *lib.Violation {
		return fviol("C09/"+wn+"/operation-failed", fmt.Sprintf("[%s] %s failed: %v", wn, op, err), "ok", err.Error())
	}
	x := op.Loc
	lc := strings.ToLower(x)
	switch op.Kind {
	case "addfact":
		f := map[string]interface{}{"k": x}
		if _, err := in.world.AddFact(x, "f"+lc, f); err != nil {
			res = fail(err)
		} else {
			in.facts[x]["f"+lc] = f
		}
	case "addshared":
		f := map[string]interface{}{"k": x + "-shared"}
		if _, err := in.world.AddFact(x, "s", f); err != nil {
			res = fail(err)
		} else {
			in.facts[x]["s"] = f
		}
	case "remshared":
		_, had := in.facts[x]["s"]
		if err := in.world.RemFact(x, "s"); err != nil && had {
			res = fail(err)
		}
		delete(in.facts[x], "s")
	case "remfact":
		_, had := in.facts[x]["f"+lc]
		if err := in.world.RemFact(x, "f"+lc); err != nil && had {
			res = fail(err)
		}
		delete(in.facts[x], "f"+lc)
	case "addrule":
		if err := in.world.AddRule(x, "r"+lc, c09Writer()); err != nil {
			res = fail(err)
		} else {
			in.rules[x]["r"+lc] = true
		}
	case "remrule":
		had := in.rules[x]["r"+lc]
		if err := in.world.RemRule(x, "r"+lc); err != nil && had {
			res = fail(err)
		}
		delete(in.rules[x], "r"+lc)
	case "clear":
		if err := in.world.Clear(x); err != nil {
			res = fail(err)
		} else {
			in.facts[x] = map[string]map[string]interface{}{}
			in.rules[x] = map[string]bool{}
			in.parents[x] = nil
		}
	case "parents":
		if err := in.world.SetParents(x, op.Ps); err != nil {
			res = fail(err)
		} else {
			in.parents[x] = append([]string{}, op.Ps...)
		}
	case "event":
		anc, cycle, diamond := in.ancestry(x)
		vals, _, err := in.world.ProcessEvent(x, lib.JM(`{"e":"1"}`))
		switch {
		case cycle:
			if err == nil {
				res = viol("C09/"+wn+"/ancestor-loop-not-reported", fmt.Sprintf("[%s] ProcessEvent(%s) succeeded although its parent chain loops (%v)", wn, x, in.parents), "error", vals)
			}
		case diamond:
			in.w.Count("diamond_observations_skipped", 1)
			// effects unspecified: resynchronise the model from the implementation is not
			// possible, so stop exploring behind it
			res = &lib.Violation{Signature: "skip", Prune: true}
		default:
			var want []string
			vis := in.visibleFacts(x, true)
			for _, l := range append([]string{x}, anc...) {
				for rid := range in.rules[l] {
					for _, f := range vis {
						if k, ok := f["k"].(string); ok {
							id := "m-" + x + "-" + rid + "-" + k
							want = append(want, lib.Canon(id))
							in.facts[x][id] = map[string]interface{}{"made": k}
						}
					}
				}
			}
			sort.Strings(want)
			if err != nil {
				res = fviol("C09/"+wn+"/event-failed", fmt.Sprintf("[%s] ProcessEvent(%s) failed: %v (parents %v)", wn, x, err, in.parents), want, err.Error())
			} else if strings.Join(vals, ",") != strings.Join(want, ",") {
				res = fviol("C09/"+wn+"/event-values-wrong", fmt.Sprintf("[%s] ProcessEvent(%s) action values %v, expected %v (parents %v)", wn, x, vals, want, in.parents), want, vals)
			}
		}
	}
	// (iii) non-interference: no other location's private state or storage changed
	for _, l := range c09Locs {
		if l == op.Loc {
			continue
		}
		if after := stripCached(in.world.Snapshot(l)); after != before[l] {
			return fviol("C09/"+wn+"/operation-changed-another-location", fmt.Sprintf("[%s] %s changed the state or storage of location %s (parents %v)", wn, op, l, in.parents), before[l], after)
		}
	}
	return res
}

func (in *c09inst) Battery() (vs []*lib.Violation) {
	for _, l := range c09Locs {
		vs = append(vs, in.checkLoc(l)...)
	}
	return vs
}

func c09Scenarios(w *lib.Worker) []*lib.Scenario {
	ops := c09Ops()
	text := make([]string, len(ops))
	for i, o := range ops {
		text[i] = o.String()
	}
	depth := 3
	if w.Tier == "thorough" {
		depth = 4
	}
	var scs []*lib.Scenario
	for _, driver := range []string{"core", "sys"} {
		for _, kind := range []string{"indexed", "linear"} {
			for _, populated := range []bool{false, true} {
				driver, kind, populated := driver, kind, populated
				scs = append(scs, &lib.Scenario{
					Name: fmt.Sprintf("C09-%s-%s-populated=%v", driver, kind, populated), Ops: text, MaxDepth: depth,
					Fresh: func() lib.Instance {
						in := &c09inst{w: w, ops: ops, facts: map[string]map[string]map[string]interface{}{}, rules: map[string]map[string]bool{}, parents: map[string][]string{}}
						for _, l := range c09Locs {
							in.facts[l] = map[string]map[string]interface{}{}
							in.rules[l] = map[string]bool{}
							in.parents[l] = []string{}
						}
						if driver == "core" {
							in.world = newCoreWorld(kind, c09Locs, nil)
						} else {
							sw := newSysWorld(kind, sysOpts{TTL: sys.Forever})
							for _, l := range c09Locs {
								sw.GetParents(l) // load every location into the cache up front
							}
							in.world = sw
						}
						if populated {
							// a non-initial start state: every location already holds its
							// fact and its writer rule (so parent changes and events are
							// reached within the depth bound)
							for i, o := range ops {
								if o.Kind == "addfact" || o.Kind == "addrule" {
									if v := in.Apply(i); v != nil {
										panic("C09 populate: " + v.Summary)
									}
								}
							}
						}
						return in
					},
				})
			}
		}
	}
	return scs
}

func init() {
	lib.Register(&lib.Check{
		ID:    "C09",
		Level: "model_checking",
		Rule: "explicit-state BFS over AddFact/RemFact/AddRule(writer rule with inherited pattern condition and Env.AddFact action)/RemRule/SetParents(all parent sets of size <= 2 incl. self, 2- and 3-cycles, diamonds)/ProcessEvent on three locations, from the empty state and from a populated state (every location holding its fact and writer rule), depth 3 quick / 4 thorough, through core.SimpleLocationProvider and through sys.System, both states; after every step every location's inherited and local searches, rule candidates, query and parents are compared with the model and every OTHER location's privileged snapshot must be unchanged; " +
			"non-trivial = distinct (driver, observation, location, topology, non-empty inherited result)",
		Assumptions: []string{
			"diamond-shaped ancestry (a location reachable along two parent paths) is outside the statement's forests: observations there are skipped and histories behind an event on such a location are not expanded",
			"the rule cache (cachedRules) is not part of the non-interference snapshot",
		},
		CrashIsViolation: true,
		CrashSignature: func(j string) (string, string) {
			return "C09/indirect-ancestor-loop-recurses-until-the-stack-overflows", "worker died while operating on a location whose parent chain loops back indirectly"
		},
		Budget: func(tier string) time.Duration {
			if tier == "thorough" {
				return 30 * time.Minute
			}
			return 5 * time.Minute
		},
		Run: func(w *lib.Worker) {
			for _, sc := range c09Scenarios(w) {
				w.BFS(sc)
			}
		},
		ReplayFn: func(w *lib.Worker, raw json.RawMessage) { w.ReplaySeq(raw, c09Scenarios(w)) },
	})
}
