package main

// C02 — fact search returns exactly the stored facts that match.
//
// Engine SEQ.  Alphabet: AddFact(id in {f1,f2,generated}, fact in F),
// AddRule(f1), RemFact(id), GetFact(id), SearchFacts(p in P).  Oracle: a map
// id -> fact; search = {(id, Matches(p, fact))} over the map, compared as a
// set of (id, binding-set); get = last write or not-found.  core.Matches is
// the definition of "matches" here (C05 keeps the matcher honest).  After every
// step the whole probe battery (every get, every search) runs, so an operation
// that silently damages an index is caught at the state it produces, and
// because the private index state is part of the state key such a state is
// also expanded further.

import (
	"encoding/json"
	"fmt"
	"sort"
	"strings"
	"time"

	"github.com/Comcast/rulio/core"
	"verifharness/lib"
)

var c02Facts = []string{
	`{"k":"v"}`,
	`{"k":"w"}`,
	`{"k":"v","j":"u"}`,
	`{"j":"v"}`,
	`{"v":"k"}`,
	`{"k":{"n":"v"}}`,
	`{"k":["v","w"]}`,
	`{"k":1}`,
	`{"k":true,"j":null}`,
	`{"k!":"v"}`,
	`{"k":"LONG"}`,
	`{"k":"w","j":"u","n":"v"}`,
	// one string under two properties: overwriting this fact by {"j":"v"} (or the
	// reverse) changes one property and keeps the other, with the same term in both
	`{"k":"v","j":"v"}`,
	// a string the JSON encoder escapes (<, &, quotes, a control character): the
	// stored bytes do not contain it verbatim
	`{"k":"a<b & \"c\"\u0001"}`,
}

var c02Patterns = []string{
	`{"k":"v"}`,
	`{"k":"?x"}`,
	`{"k":"v","j":"?x"}`,
	`{"k":"?x","j":"?y"}`,
	`{"j":"u","k":"?x"}`,
	`{"k":"?x","j":"?x"}`,
	`{"k":{"n":"?x"}}`,
	`{"k":["v"]}`,
	`{"k":["?x"]}`,
	`{"k":1}`,
	`{"k":true}`,
	`{"j":null}`,
	`{"j":"v"}`,
	`{"k!":"?x"}`,
	`{"k":"LONG"}`,
	`{"rule":"?r"}`,
	// patterns that reach INTO a stored rule (the term index does not index rule bodies)
	`{"rule":{"when":"?w"}}`,
	`{"rule":{"action":{"code":"?c"}}}`,
	`{"?p":"v"}`,
	`{"?p":"?q"}`,
	`{}`,
	`{"k":"a<b & \"c\"\u0001"}`,
}

var longString = strings.Repeat("x", 1100)

func expandLong(s string) string { return strings.ReplaceAll(s, "LONG", longString) }

type c02op struct {
	Kind string // add addgen addrule rem get search
	Id   string
	Idx  int
}

func (o c02op) String() string {
	switch o.Kind {
	case "add":
		return fmt.Sprintf("AddFact(%s,%s)", o.Id, c02Facts[o.Idx])
	case "addgen":
		return fmt.Sprintf("AddFact(<generated>,%s)", c02Facts[o.Idx])
	case "addrule":
		return fmt.Sprintf("AddRule(%s)", o.Id)
	case "rem":
		return fmt.Sprintf("RemFact(%s)", o.Id)
	case "get":
		return fmt.Sprintf("GetFact(%s)", o.Id)
	case "search":
		return fmt.Sprintf("SearchFacts(%s)", c02Patterns[o.Idx])
	}
	return "?"
}

func c02Ops(tier string) []c02op {
	var ops []c02op
	ids := []string{"f1", "f2"}
	// simplest first
	for _, id := range ids {
		ops = append(ops, c02op{"get", id, 0})
	}
	for i := range c02Patterns {
		ops = append(ops, c02op{"search", "", i})
	}
	for _, id := range ids {
		for i := range c02Facts {
			ops = append(ops, c02op{"add", id, i})
		}
	}
	ops = append(ops, c02op{"addgen", "", 0}, c02op{"addgen", "", 2})
	ops = append(ops, c02op{"addrule", "f1", 0})
	for _, id := range ids {
		ops = append(ops, c02op{"rem", id, 0})
	}
	return ops
}

const c02Rule = `{"when":{"pattern":{"a":"b"}},"action":{"code":"1"}}`

type c02inst struct {
	kind    string
	ops     []c02op
	ctx     *core.Context
	loc     *core.Location
	store   *core.MemStorage
	model   map[string]map[string]interface{}
	gen     []string
	everIds map[string]bool
	w       *lib.Worker
}

func (in *c02inst) Close() {}

func (in *c02inst) anon(s string) string {
	for i, g := range in.gen {
		s = strings.ReplaceAll(s, g, fmt.Sprintf("<gen%d>", i))
	}
	return s
}

func (in *c02inst) Key() string {
	return in.anon(lib.Canon(in.model) + "|" + core.VerifKeyJSON(in.loc.VerifState()) + "|" + lib.Canon(lib.Pairs(in.ctx, in.store, "L")))
}

func viol(sig, summary string, exp, obs interface{}) *lib.Violation {
	return &lib.Violation{Signature: sig, Summary: summary, Expected: exp, Observed: obs}
}

// fviol: a violation after which implementation and model state differ.
func fviol(sig, summary string, exp, obs interface{}) *lib.Violation {
	return &lib.Violation{Signature: sig, Summary: summary, Expected: exp, Observed: obs, Fatal: true}
}

func (in *c02inst) checkGet(id string) *lib.Violation {
	got, err := in.loc.GetFact(in.ctx, id)
	want, have := in.model[id]
	if !have {
		if err == nil {
			return viol("C02/"+in.kind+"/get-returns-absent-id", fmt.Sprintf("GetFact(%s) returned %s for an id that is not stored", id, lib.Canon(got)), "not found", lib.Canon(got))
		}
		if lib.ErrClass(err) != "notfound" {
			return viol("C02/"+in.kind+"/get-absent-wrong-error", fmt.Sprintf("GetFact(%s) on an absent id: %v", id, err), "not found", err.Error())
		}
		return nil
	}
	if err != nil {
		return viol("C02/"+in.kind+"/get-error", fmt.Sprintf("GetFact(%s) failed for a stored fact: %v", id, err), lib.Canon(want), err.Error())
	}
	if lib.Canon(map[string]interface{}(got)) != lib.Canon(want) {
		return viol("C02/"+in.kind+"/get-wrong-value", fmt.Sprintf("GetFact(%s) = %s, last written %s", id, in.anon(lib.Canon(got)), lib.Canon(want)), lib.Canon(want), lib.Canon(got))
	}
	return nil
}

// expectedSearch computes the oracle's answer; defined=false when the
// reference matcher itself reports an error for some stored fact.
func expectedSearch(model map[string]map[string]interface{}, pattern map[string]interface{}) (exp []string, defined bool) {
	for _, id := range lib.SortedKeys(model) {
		bss, err := core.Matches(nil, lib.CopyMap(pattern), lib.CopyMap(model[id]))
		if err != nil {
			return nil, false
		}
		if len(bss) > 0 {
			exp = append(exp, id+"="+strings.Join(lib.BindingsSet(bss), ";"))
		}
	}
	sort.Strings(exp)
	return exp, true
}

func (in *c02inst) checkSearch(pi int) *lib.Violation {
	ptxt := expandLong(c02Patterns[pi])
	pattern := lib.JM(ptxt)
	exp, defined := expectedSearch(in.model, pattern)
	sr, err := in.loc.SearchFacts(in.ctx, core.Map(lib.CopyMap(pattern)), false)
	if !defined {
		in.w.Count("search_oracle_undefined", 1)
		return nil
	}
	if err != nil {
		sig := "C02/" + in.kind + "/search-error"
		if in.kind == "indexed" && len(core.ExtractTerms(nil, pattern)) == 0 {
			sig = "C02/indexed/termless-pattern-refused"
		}
		return viol(sig, fmt.Sprintf("SearchFacts(%s) failed (%v) where matching every stored fact yields %v", c02Patterns[pi], err, exp), exp, err.Error())
	}
	var got []string
	for _, f := range sr.Found {
		got = append(got, f.Id+"="+strings.Join(lib.BindingsSet(f.Bindingss), ";"))
		// returned content must be the stored fact
		var m map[string]interface{}
		if e := json.Unmarshal([]byte(f.Js), &m); e != nil {
			return viol("C02/"+in.kind+"/search-js-unparsable", "SearchFacts returned unparsable fact JSON for "+f.Id, nil, f.Js)
		}
		if want, ok := in.model[f.Id]; ok && lib.Canon(m) != lib.Canon(want) {
			return viol("C02/"+in.kind+"/search-wrong-content", fmt.Sprintf("SearchFacts(%s) returned fact %s = %s but %s was written", c02Patterns[pi], f.Id, f.Js, lib.Canon(want)), lib.Canon(want), f.Js)
		}
	}
	sort.Strings(got)
	if strings.Join(got, "\n") != strings.Join(exp, "\n") {
		missing, extra := diffSets(exp, got)
		sig := "C02/" + in.kind + "/search-"
		switch {
		case len(missing) > 0 && len(extra) == 0 && in.kind == "indexed" && in.allBangPropvar(pattern, missing):
			// narrow classifier: pattern with a variable KEY, and every missed fact
			// matches only through a key ending in '!' (whose value is not indexed)
			sig += "propvar-pattern-misses-bang-key-fact"
		case len(missing) > 0 && len(extra) == 0:
			sig += "misses-stored-fact"
		case len(extra) > 0 && len(missing) == 0:
			sig += "returns-extra"
		default:
			sig += "differs"
		}
		return viol(sig, fmt.Sprintf("SearchFacts(%s): expected %v, got %v", c02Patterns[pi], in.anonAll(exp), in.anonAll(got)), in.anonAll(exp), in.anonAll(got))
	}
	if len(exp) > 0 {
		in.w.Nontrivial(in.kind + "|" + c02Patterns[pi] + "|" + in.anon(strings.Join(exp, ",")))
	}
	return nil
}

func (in *c02inst) allBangPropvar(pattern map[string]interface{}, missing []string) bool {
	hasVarKey := false
	for k := range pattern {
		if strings.HasPrefix(k, "?") {
			hasVarKey = true
		}
	}
	if !hasVarKey || len(missing) == 0 {
		return false
	}
	for _, m := range missing {
		id := m[:strings.Index(m, "=")]
		fact := in.model[id]
		// without its '!'-suffixed keys the fact must no longer match
		stripped := map[string]interface{}{}
		bang := false
		for k, v := range fact {
			if strings.HasSuffix(k, "!") {
				bang = true
				continue
			}
			stripped[k] = v
		}
		if !bang {
			return false
		}
		bss, err := core.Matches(nil, lib.CopyMap(pattern), stripped)
		if err != nil || len(bss) > 0 {
			return false
		}
	}
	return true
}

func (in *c02inst) anonAll(xs []string) []string {
	ys := make([]string, len(xs))
	for i, x := range xs {
		ys[i] = in.anon(x)
	}
	return ys
}

func diffSets(exp, got []string) (missing, extra []string) {
	e := map[string]int{}
	for _, x := range exp {
		e[x]++
	}
	for _, x := range got {
		if e[x] > 0 {
			e[x]--
		} else {
			extra = append(extra, x)
		}
	}
	for x, n := range e {
		for i := 0; i < n; i++ {
			missing = append(missing, x)
		}
	}
	sort.Strings(missing)
	return
}

func (in *c02inst) Apply(opi int) *lib.Violation {
	op := in.ops[opi]
	switch op.Kind {
	case "get":
		return in.checkGet(op.Id)
	case "search":
		return in.checkSearch(op.Idx)
	case "add", "addgen":
		fact := lib.JM(expandLong(c02Facts[op.Idx]))
		id, err := in.loc.AddFact(in.ctx, op.Id, core.Map(lib.CopyMap(fact)))
		if err != nil {
			return fviol("C02/"+in.kind+"/add-error", fmt.Sprintf("%s failed: %v", op, err), "ok", err.Error())
		}
		if op.Kind == "add" {
			if id != op.Id {
				return fviol("C02/"+in.kind+"/add-id-not-kept", fmt.Sprintf("%s returned id %q", op, id), op.Id, id)
			}
		} else {
			if id == "" || in.everIds[id] {
				return fviol("C02/"+in.kind+"/generated-id-not-fresh", fmt.Sprintf("%s returned id %q which is empty or was used before", op, id), "fresh id", id)
			}
			in.gen = append(in.gen, id)
		}
		in.everIds[id] = true
		in.model[id] = fact
	case "addrule":
		rule := lib.JM(c02Rule)
		id, err := in.loc.AddRule(in.ctx, op.Id, core.Map(lib.CopyMap(rule)))
		if err != nil || id != op.Id {
			return fviol("C02/"+in.kind+"/addrule-error", fmt.Sprintf("%s failed: id=%q err=%v", op, id, err), "ok", fmt.Sprint(err))
		}
		in.everIds[id] = true
		in.model[id] = map[string]interface{}{"rule": rule}
	case "rem":
		_, had := in.model[op.Id]
		_, err := in.loc.RemFact(in.ctx, op.Id)
		if had && err != nil {
			return fviol("C02/"+in.kind+"/rem-error", fmt.Sprintf("%s failed for a stored fact: %v", op, err), "ok", err.Error())
		}
		delete(in.model, op.Id)
	}
	return nil
}

func (in *c02inst) Battery() (vs []*lib.Violation) {
	ids := []string{"f1", "f2"}
	ids = append(ids, in.gen...)
	for _, id := range ids {
		if v := in.checkGet(id); v != nil {
			vs = append(vs, v)
		}
	}
	first := map[int]string{}
	for i := range c02Patterns {
		if v := in.checkSearch(i); v != nil {
			vs = append(vs, v)
			first[i] = v.Signature
		}
	}
	// and once more: the probes themselves must not have damaged anything
	for i := range c02Patterns {
		if v := in.checkSearch(i); v != nil && v.Signature != first[i] {
			v.Signature += "+after-probe"
			v.Summary = "after a full round of searches: " + v.Summary
			vs = append(vs, v)
		}
	}
	return vs
}

func c02Scenarios(w *lib.Worker) []*lib.Scenario {
	ops := c02Ops(w.Tier)
	text := make([]string, len(ops))
	for i, o := range ops {
		text[i] = o.String()
	}
	depth := 3
	if w.Tier == "thorough" {
		depth = 5
	}
	var scs []*lib.Scenario
	for _, kind := range []string{"indexed", "linear"} {
		kind := kind
		scs = append(scs, &lib.Scenario{
			Name: "C02-" + kind, Ops: text, MaxDepth: depth,
			Fresh: func() lib.Instance {
				ctx := lib.Ctx()
				store := lib.MemStore(ctx)
				loc := lib.MustLoc(ctx, kind, "L", store)
				return &c02inst{kind: kind, ops: ops, ctx: ctx, loc: loc, store: store,
					model: map[string]map[string]interface{}{}, everIds: map[string]bool{}, w: w}
			},
			Enabled: func(path []int, op int) bool {
				if ops[op].Kind != "addgen" {
					return true
				}
				n := 0
				for _, p := range path {
					if ops[p].Kind == "addgen" {
						n++
					}
				}
				return n < 2
			},
		})
	}
	return scs
}

func init() {
	lib.Register(&lib.Check{
		ID:    "C02",
		Level: "model_checking",
		Rule: "explicit-state BFS over AddFact/AddRule/RemFact/GetFact/SearchFacts sequences on ids {f1,f2,generated} over 12 facts x 18 patterns, " +
			"both state implementations, every get and every search probed after every step; states deduplicated on model + private index dump + storage pairs; " +
			"non-trivial = distinct (state kind, pattern, non-empty expected result) combinations whose answer was compared",
		Assumptions: []string{
			"core.Matches defines 'matches' in this check (its own soundness/completeness is C05)",
			"generated ids are compared up to renaming",
			"removing an id that was never stored is left unspecified",
		},
		Budget: func(tier string) time.Duration {
			if tier == "thorough" {
				return 25 * time.Minute
			}
			return 4 * time.Minute
		},
		Run: func(w *lib.Worker) {
			for _, sc := range c02Scenarios(w) {
				w.BFS(sc)
			}
		},
		ReplayFn: func(w *lib.Worker, raw json.RawMessage) { w.ReplaySeq(raw, c02Scenarios(w)) },
	})
}
