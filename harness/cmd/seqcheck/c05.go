package main

// C05 — pattern matching is sound and complete for partial (subset) matching.
//
// Engine GEN: every (pattern, datum, initial bindings) triple of a bounded
// grammar inside the documented fragment, each run under every iteration order
// of the maps the matcher ranges over (the sheens matcher's `range` loops are
// owned by the harness through the overlay), compared as a SET of binding sets
// with lib.RefMatch, an independent brute-force matcher written from the
// manual.  Plus: no mutation of pattern / datum / initial bindings; every
// Go-typed decoration of the triple (core.Map at every subset of map
// positions, []string / []int / int) must give the plain-JSON answer;
// Bindings.Bind equals reference substitution.

import (
	"encoding/json"
	"fmt"
	"reflect"
	"strings"
	"time"

	"github.com/Comcast/rulio/core"
	"github.com/Comcast/sheens/match"
	"verifharness/lib"
)

func c05Grammar(tier string) (pats, data []map[string]interface{}) {
	pl := []interface{}{1.0, 2.0, "a", "b", true, nil, "?x", "?y"}
	dl := []interface{}{1.0, 2.0, "a", "b", true, nil}
	po := lib.GenOpts{Keys: []string{"a", "b"}, Leaves: pl, Budget: 4, Depth: 2, VarKey: true, Empty: true, MaxArray: 2, ArrayMaps: true}
	do := lib.GenOpts{Keys: []string{"a", "b"}, Leaves: dl, Budget: 4, Depth: 2, Empty: true, MaxArray: 3, ArrayMaps: true}
	if tier == "thorough" {
		po.Budget, do.Budget = 5, 5
	}
	for _, p := range lib.GenMapsOpts(po) {
		if inFragment(p) {
			pats = append(pats, p)
		}
	}
	data = lib.GenMapsOpts(do)
	// values that differ only in JSON type (and print alike): a matcher, or anything
	// between it and the caller, that compares renderings confuses them
	conf := []interface{}{1.0, "1", true, "true", nil, "<nil>", map[string]interface{}{"b": 2.0}, map[string]interface{}{"b": "2"}}
	for _, u := range conf {
		for _, v := range conf {
			if lib.Canon(u) == lib.Canon(v) {
				continue // arrays hold distinct elements in the documented fragment
			}
			data = append(data, map[string]interface{}{"a": []interface{}{lib.DeepCopy(u), lib.DeepCopy(v)}})
		}
	}
	pats = append(pats, map[string]interface{}{"a": []interface{}{map[string]interface{}{"b": "?x"}}})
	return
}

// inFragment: arrays hold at most one variable (documented restriction).
func inFragment(x interface{}) bool {
	switch v := x.(type) {
	case map[string]interface{}:
		for _, y := range v {
			if !inFragment(y) {
				return false
			}
		}
	case []interface{}:
		vars := 0
		for _, y := range v {
			if s, ok := y.(string); ok && strings.HasPrefix(s, "?") {
				vars++
			}
			if !inFragment(y) {
				return false
			}
		}
		return vars <= 1
	}
	return true
}

var c05Inits = []string{`{}`, `{"?x":1}`, `{"?x":"a"}`, `{"?y":1}`, `{"?x":{"a":1}}`, `{"?x":[1]}`}

func maxMapLen(x interface{}) int {
	n := 0
	switch v := x.(type) {
	case map[string]interface{}:
		n = len(v)
		for _, y := range v {
			if m := maxMapLen(y); m > n {
				n = m
			}
		}
	case []interface{}:
		for _, y := range v {
			if m := maxMapLen(y); m > n {
				n = m
			}
		}
	}
	return n
}

func countVars(x interface{}, acc map[string]bool) {
	switch v := x.(type) {
	case string:
		if strings.HasPrefix(v, "?") {
			acc[v] = true
		}
	case map[string]interface{}:
		for k, y := range v {
			if strings.HasPrefix(k, "?") {
				acc[k] = true
			}
			countVars(y, acc)
		}
	case []interface{}:
		for _, y := range v {
			countVars(y, acc)
		}
	}
}

func refSet(bs []map[string]interface{}) []string {
	out := make([]string, 0, len(bs))
	for _, b := range bs {
		out = append(out, lib.Canon(b))
	}
	return lib.Dedup(out)
}

func implSet(bss []core.Bindings) []string {
	return lib.Dedup(lib.BindingsSet(bss))
}

type c05case struct {
	Pattern map[string]interface{} `json:"pattern"`
	Datum   map[string]interface{} `json:"datum"`
	Init    map[string]interface{} `json:"init"`
	Order   int                    `json:"order"`
	Deco    string                 `json:"decoration,omitempty"`
}

// classify names recorded matcher defects by the failing input.
func c05Classify(c c05case, exp, got []string, errText string) string {
	vars := map[string]bool{}
	countVars(c.Pattern, vars)
	boundToContainer := false
	check := func(v interface{}) {
		switch v.(type) {
		case map[string]interface{}, []interface{}:
			boundToContainer = true
		}
	}
	for _, v := range c.Init {
		check(v)
	}
	for _, e := range append(append([]string{}, exp...), got...) {
		var m map[string]interface{}
		if json.Unmarshal([]byte(e), &m) == nil {
			for _, v := range m {
				check(v)
			}
		}
	}
	missing, extra := diffSets(exp, got)
	switch {
	case errText != "":
		return "C05/matcher-error"
	case boundToContainer && len(extra) > 0 && len(missing) == 0:
		return "C05/repeated-variable-bound-to-container-rematched-partially"
	case boundToContainer:
		return "C05/repeated-variable-bound-to-container-differs"
	case len(missing) > 0 && len(extra) == 0:
		return "C05/match-omitted"
	case len(extra) > 0 && len(missing) == 0:
		return "C05/spurious-match"
	}
	return "C05/result-differs"
}

func c05Run(w *lib.Worker) {
	pats, data := c05Grammar(w.Tier)
	w.Note("patterns", len(pats))
	w.Note("data", len(data))
	inits := make([]map[string]interface{}, len(c05Inits))
	for i, s := range c05Inits {
		inits[i] = lib.JM(s)
	}
	perm := 0
	match.VerifSetChooser(func(n int) int {
		f := 1
		for i := 2; i <= n; i++ {
			f *= i
		}
		return perm % f
	})
	defer match.VerifSetChooser(nil)
	ctx := lib.Ctx()
	for pi, p := range pats {
		if !w.Mine(pi) {
			continue
		}
		if w.TimeUp() {
			w.Cap("time budget reached in triple enumeration")
			return
		}
		ptxt := lib.Canon(p)
		vars := map[string]bool{}
		countVars(p, vars)
		w.AddStates(1)
		for _, d := range data {
			dtxt := lib.Canon(d)
			for ii, b0 := range inits {
				// initial bindings only matter when the pattern mentions the variable
				relevant := ii == 0
				for v := range b0 {
					if vars[v] {
						relevant = true
					}
				}
				if !relevant {
					continue
				}
				exp, err := lib.RefMatch(p, d, b0)
				if err != nil {
					w.Count("outside_fragment", 1)
					continue
				}
				expS := refSet(exp)
				maxN := maxMapLen(p)
				if m := maxMapLen(d); m > maxN {
					maxN = m
				}
				if m := len(vars) + len(b0); m > maxN {
					maxN = m
				}
				orders := 1
				for i := 2; i <= maxN && orders < 6; i++ {
					orders *= i
				}
				if orders > 6 {
					orders = 6
				}
				b0txt := lib.Canon(b0)
				var plainS []string
				plainOK := false
				for perm = 0; perm < orders; perm++ {
					pc, dc, bc := lib.CopyMap(p), lib.CopyMap(d), core.Bindings(lib.CopyMap(b0))
					got, gerr := core.Match(ctx, pc, dc, bc)
					w.Eval(1)
					w.AddTrans(1)
					c := c05case{p, d, b0, perm, ""}
					if lib.Canon(pc) != ptxt || lib.Canon(dc) != dtxt || lib.Canon(map[string]interface{}(bc)) != b0txt {
						w.Violation(lib.Violation{Scenario: "triples", Signature: "C05/input-mutated",
							Summary: fmt.Sprintf("Match(%s, %s, %s) modified its inputs: pattern %s datum %s bindings %s", ptxt, dtxt, b0txt, lib.Canon(pc), lib.Canon(dc), lib.Canon(map[string]interface{}(bc))), Replay: c})
					}
					gotS := implSet(got)
					et := ""
					if gerr != nil {
						et = gerr.Error()
					}
					if perm == 0 && gerr == nil {
						plainS, plainOK = gotS, true
					}
					if gerr != nil || strings.Join(gotS, "\n") != strings.Join(expS, "\n") {
						sig := c05Classify(c, expS, gotS, et)
						w.Violation(lib.Violation{Scenario: "triples", Signature: sig,
							Summary: fmt.Sprintf("Match(pattern=%s, datum=%s, bindings=%s) [map order #%d] = %v err=%q; reference: %v", ptxt, dtxt, b0txt, perm, gotS, et, expS),
							Replay:  c, Expected: expS, Observed: gotS})
					}
				}
				perm = 0
				if len(exp) > 0 {
					w.Nontrivial(ptxt + "|" + dtxt + "|" + b0txt)
				}
				if ii > 0 && plainOK {
					c05TypedBindings(w, ctx, p, d, b0)
				}
				if ii == 0 && plainOK {
					// metamorphic: Go-typed forms must answer like the plain JSON form
					c05Decorations(w, ctx, p, d, plainS)
					if len(exp) > 0 {
						c05Bind(w, ctx, p, exp[0])
					}
				}
			}
		}
		w.AddTraces(1)
		if pi < 3 {
			w.Sample(map[string]interface{}{"pattern": p, "datum": data[len(data)/2], "init": inits[0]})
		}
	}
}

// ---- Go-typed decorations ---------------------------------------------------

// decorate returns a copy of x where the i-th map (pre-order) becomes a
// core.Map iff bit i of mask is set; typed controls slice/int conversion.
func decorate(x interface{}, mask int, counter *int, typed bool) interface{} {
	switch v := x.(type) {
	case map[string]interface{}:
		i := *counter
		*counter++
		m := make(map[string]interface{}, len(v))
		for _, k := range lib.SortedKeys(v) {
			m[k] = decorate(v[k], mask, counter, typed)
		}
		if mask&(1<<uint(i)) != 0 {
			return core.Map(m)
		}
		return m
	case []interface{}:
		if typed && len(v) > 0 {
			allS, allI := true, true
			for _, y := range v {
				if _, ok := y.(string); !ok {
					allS = false
				}
				if f, ok := y.(float64); !ok || f != float64(int(f)) {
					allI = false
				}
			}
			if allS {
				ss := make([]string, len(v))
				for i, y := range v {
					ss[i] = y.(string)
				}
				return ss
			}
			if allI {
				is := make([]int, len(v))
				for i, y := range v {
					is[i] = int(y.(float64))
				}
				return is
			}
		}
		a := make([]interface{}, len(v))
		for i, y := range v {
			a[i] = decorate(y, mask, counter, typed)
		}
		return a
	case float64:
		if typed && v == float64(int(v)) {
			return int(v)
		}
	}
	return x
}

func countMaps(x interface{}) int {
	n := 0
	switch v := x.(type) {
	case map[string]interface{}:
		n = 1
		for _, y := range v {
			n += countMaps(y)
		}
	case []interface{}:
		for _, y := range v {
			n += countMaps(y)
		}
	}
	return n
}

// intScalars returns a copy of x whose integer-valued float64 SCALARS (map
// values and array elements alike) become Go ints (wide=false) or int64s.
func intScalars(x interface{}, wide bool) (interface{}, bool) {
	changed := false
	var walk func(x interface{}) interface{}
	walk = func(x interface{}) interface{} {
		switch v := x.(type) {
		case map[string]interface{}:
			m := make(map[string]interface{}, len(v))
			for k, y := range v {
				m[k] = walk(y)
			}
			return m
		case []interface{}:
			a := make([]interface{}, len(v))
			for i, y := range v {
				a[i] = walk(y)
			}
			return a
		case float64:
			if v == float64(int(v)) {
				changed = true
				if wide {
					return int64(v)
				}
				return int(v)
			}
		}
		return x
	}
	y := walk(x)
	return y, changed
}

// c05NumberTypes: the same numbers as Go ints on one side only (a caller that
// builds patterns or facts in Go rather than from JSON).
func c05NumberTypes(w *lib.Worker, ctx *core.Context, p, d map[string]interface{}, expS []string) {
	for _, v := range []struct {
		name       string
		pInt, dInt int // 0 = as is, 1 = int, 2 = int64
	}{{"pattern-ints", 1, 0}, {"datum-ints", 0, 1}, {"pattern-int64-datum-int", 2, 1}} {
		dp, dd := interface{}(p), interface{}(d)
		any := false
		if v.pInt > 0 {
			var ch bool
			dp, ch = intScalars(p, v.pInt == 2)
			any = any || ch
		}
		if v.dInt > 0 {
			var ch bool
			dd, ch = intScalars(d, v.dInt == 2)
			any = any || ch
		}
		if !any {
			continue
		}
		got, err := core.Matches(ctx, dp, dd)
		w.Eval(1)
		w.Count("number_typed_variants", 1)
		gotS := implSet(got)
		if err != nil || strings.Join(gotS, "\n") != strings.Join(expS, "\n") {
			et := ""
			if err != nil {
				et = err.Error()
			}
			w.Violation(lib.Violation{Scenario: "decorations", Signature: "C05/go-int-input-differs-from-json-form:" + v.name,
				Summary: fmt.Sprintf("Matches(%#v, %#v) = %v err=%q but the plain JSON form gives %v", dp, dd, gotS, et, expS),
				Replay:  c05case{p, d, nil, 0, "numbers as Go ints: " + v.name}, Expected: expS, Observed: gotS})
		}
	}
}

// goTyped converts a JSON-typed value into what a Go caller might hold:
// integral numbers as ints, maps as core.Map, string arrays as []string.
func goTyped(x interface{}) interface{} {
	switch v := x.(type) {
	case float64:
		if v == float64(int(v)) {
			return int(v)
		}
	case map[string]interface{}:
		m := core.Map{}
		for k, y := range v {
			m[k] = goTyped(y)
		}
		return m
	case []interface{}:
		ss := make([]string, 0, len(v))
		for _, y := range v {
			s, ok := y.(string)
			if !ok {
				a := make([]interface{}, len(v))
				for i, z := range v {
					a[i] = goTyped(z)
				}
				return a
			}
			ss = append(ss, s)
		}
		if len(ss) > 0 {
			return ss
		}
	}
	return x
}

// c05TypedBindings: the caller's initial bindings must come back untouched also
// when they hold Go-typed values (compared with reflect.DeepEqual: a value
// replaced by its JSON-typed twin is a modification).
func c05TypedBindings(w *lib.Worker, ctx *core.Context, p, d, b0 map[string]interface{}) {
	mk := func() core.Bindings {
		bs := core.Bindings{}
		for k, v := range lib.CopyMap(b0) {
			bs[k] = goTyped(v)
		}
		return bs
	}
	given, want := mk(), mk()
	if reflect.DeepEqual(map[string]interface{}(given), lib.CopyMap(b0)) {
		return // nothing Go-typed in these bindings
	}
	core.Match(ctx, lib.CopyMap(p), lib.CopyMap(d), given)
	w.Eval(1)
	w.Count("typed_initial_bindings", 1)
	if !reflect.DeepEqual(given, want) {
		w.Violation(lib.Violation{Scenario: "triples", Signature: "C05/go-typed-initial-bindings-modified",
			Summary: fmt.Sprintf("Match(%s, %s, %#v) left the caller's bindings as %#v", lib.Canon(p), lib.Canon(d), want, given),
			Replay:  c05case{p, d, b0, 0, "go-typed initial bindings"}, Expected: fmt.Sprintf("%#v", want), Observed: fmt.Sprintf("%#v", given)})
	}
}

func c05Decorations(w *lib.Worker, ctx *core.Context, p, d map[string]interface{}, expS []string) {
	c05NumberTypes(w, ctx, p, d, expS)
	np, nd := countMaps(p), countMaps(d)
	k := np + nd
	if k > 6 {
		k = 6
	}
	for _, typed := range []bool{false, true} {
		for mask := 0; mask < 1<<uint(k); mask++ {
			if mask == 0 && !typed {
				continue
			}
			cnt := 0
			dp := decorate(p, mask, &cnt, typed)
			dd := decorate(d, mask, &cnt, typed)
			got, err := core.Matches(ctx, dp, dd)
			w.Eval(1)
			w.Count("decorated_variants", 1)
			gotS := implSet(got)
			if err != nil || strings.Join(gotS, "\n") != strings.Join(expS, "\n") {
				deco := fmt.Sprintf("core.Map mask=%b typed-slices/ints=%v", mask, typed)
				sig := "C05/go-typed-input-differs-from-json-form"
				if typed && mask == 0 {
					sig = "C05/typed-slice-or-int-input-differs-from-json-form"
				}
				et := ""
				if err != nil {
					et = err.Error()
				}
				w.Violation(lib.Violation{Scenario: "decorations", Signature: sig,
					Summary: fmt.Sprintf("Matches(%#v, %#v) = %v err=%q but the plain JSON form gives %v", dp, dd, gotS, et, expS),
					Replay:  c05case{p, d, nil, mask, deco}, Expected: expS, Observed: gotS})
			}
		}
	}
}

func c05Bind(w *lib.Worker, ctx *core.Context, p map[string]interface{}, b map[string]interface{}) {
	bs := core.Bindings(lib.CopyMap(b))
	pc := lib.CopyMap(p)
	got := bs.Bind(ctx, interface{}(pc))
	exp := lib.RefSubst(p, b)
	w.Count("bind_checks", 1)
	if lib.Canon(got) != lib.Canon(exp) || lib.Canon(pc) != lib.Canon(p) || lib.Canon(map[string]interface{}(bs)) != lib.Canon(b) {
		w.Violation(lib.Violation{Scenario: "bind", Signature: "C05/bind-differs-from-substitution",
			Summary: fmt.Sprintf("Bindings(%s).Bind(%s) = %s (pattern now %s), substitution gives %s", lib.Canon(b), lib.Canon(p), lib.Canon(got), lib.Canon(pc), lib.Canon(exp)),
			Replay:  c05case{p, nil, b, 0, "bind"}})
	}
}

func c05Replay(w *lib.Worker, raw json.RawMessage) {
	var c c05case
	if err := json.Unmarshal(raw, &c); err != nil {
		panic(err)
	}
	ctx := lib.Ctx()
	if c.Deco == "bind" {
		c05Bind(w, ctx, c.Pattern, c.Init)
		return
	}
	exp, err := lib.RefMatch(c.Pattern, c.Datum, c.Init)
	if err != nil {
		return
	}
	expS := refSet(exp)
	if c.Deco != "" {
		plain, err := core.Matches(ctx, lib.CopyMap(c.Pattern), lib.CopyMap(c.Datum))
		if err == nil {
			c05Decorations(w, ctx, c.Pattern, c.Datum, implSet(plain))
		}
		return
	}
	perm := c.Order
	match.VerifSetChooser(func(n int) int {
		f := 1
		for i := 2; i <= n; i++ {
			f *= i
		}
		return perm % f
	})
	defer match.VerifSetChooser(nil)
	got, gerr := core.Match(ctx, lib.CopyMap(c.Pattern), lib.CopyMap(c.Datum), core.Bindings(lib.CopyMap(c.Init)))
	gotS := implSet(got)
	et := ""
	if gerr != nil {
		et = gerr.Error()
	}
	if gerr != nil || strings.Join(gotS, "\n") != strings.Join(expS, "\n") {
		w.Violation(lib.Violation{Signature: c05Classify(c, expS, gotS, et), Summary: fmt.Sprintf("Match = %v err=%q; reference %v", gotS, et, expS), Replay: c})
	}
}

func init() {
	lib.Register(&lib.Check{
		ID:    "C05",
		Level: "model_checking",
		Rule: "bounded-exhaustive enumeration of (pattern, datum, initial bindings) triples over keys {a,b}, leaves {1,2,\"a\",\"b\",true,null,?x,?y}, nested maps, arrays-as-sets with <= 1 variable, arrays of maps, a single variable key, empty containers (pattern/datum node budget 4/4 quick, 5/5 thorough), x every iteration order of the maps the matcher ranges over, x every core.Map/[]string/[]int/int decoration; oracle = independent brute-force reference matcher, set equality; " +
			"states = patterns, transitions = matcher invocations; non-trivial = distinct triples with a non-empty reference result",
		Assumptions: []string{
			"the reference matcher (harness/lib/refmatch.go) encodes the documented semantics: partial maps, arrays as sets with distinct elements, deep equality for repeated variables",
			"data strings never start with '?' (C13 covers variable-looking data)",
			"patterns with a variable key next to other keys are outside the documented fragment and skipped",
		},
		Budget: func(tier string) time.Duration {
			if tier == "thorough" {
				return 30 * time.Minute
			}
			return 4 * time.Minute
		},
		Run:      c05Run,
		ReplayFn: c05Replay,
	})
}
