package main

// C06 — acknowledged changes are durable; reload reproduces the live location.
//
// Engines SEQ + FAULT.  Explicit-state BFS over fact / rule / property /
// parent / clear histories on {indexed, linear} x {memory, bolt}.  In every
// explored transition (state --op--> state'):
//
//   reload   a second location is built from the same storage (after the
//            virtual clock moved 10 s, so a restarted ttl is visible) and its
//            whole observation vector must equal the live location's;
//   crash    for every storage call c_j the operation makes, the history is
//            re-run with the process "dying" at c_j (c_j and everything after
//            it are not applied); every id in storage must then hold either
//            its value before the operation or its value after it;
//   fault    for every c_j, the history is re-run with c_j returning an error:
//            the API call must report an error; then one more operation is
//            applied and every id whose last toucher was acknowledged must be
//            identical in memory and in storage.
//
// Plus the back-end contract: data handed out by Storage.Load stays intact
// while every short write history proceeds.

import (
	"encoding/json"
	"fmt"
	"os"
	"path/filepath"
	"sort"
	"strings"
	"sync/atomic"
	"time"

	"github.com/Comcast/rulio/core"
	boltstore "github.com/Comcast/rulio/storage/bolt"
	"verifharness/lib"
)

type c06op struct {
	Kind string // addfact addrule rem remrule enable disable parents noparents clear
	Id   string
	Idx  int
}

var c06FactNames = []string{"plain", "ttl-100s", "ttl-100", "expires-number", "expires-rfc3339", "deleteWith-x"}

func c06Fact(i int) map[string]interface{} {
	exp := lib.T0.Add(100 * time.Second)
	switch i {
	case 0:
		return lib.JM(`{"k":"v"}`)
	case 1:
		return lib.JM(`{"k":"v","ttl":"100s"}`)
	case 2:
		return lib.JM(`{"k":"v","ttl":100}`)
	case 3:
		return map[string]interface{}{"k": "v", "expires": float64(exp.Unix())}
	case 4:
		return map[string]interface{}{"k": "v", "expires": exp.Format(time.RFC3339)}
	case 5:
		return lib.JM(`{"k":"w","deleteWith":["x"]}`)
	}
	panic("fact idx")
}

func c06Rule(i int) map[string]interface{} {
	r := lib.JM(`{"when":{"pattern":{"e":"?e"}},"action":{"code":"1"}}`)
	if i == 1 {
		r["expires"] = float64(lib.T0.Add(100 * time.Second).Unix())
	}
	return r
}

func (o c06op) String() string {
	switch o.Kind {
	case "addfact":
		return fmt.Sprintf("AddFact(%s,%s)", o.Id, c06FactNames[o.Idx])
	case "addrule":
		return fmt.Sprintf("AddRule(%s,%s)", o.Id, []string{"plain", "expires-number"}[o.Idx])
	case "rem":
		return fmt.Sprintf("RemFact(%s)", o.Id)
	case "remrule":
		return fmt.Sprintf("RemRule(%s)", o.Id)
	case "enable":
		return fmt.Sprintf("EnableRule(%s,true)", o.Id)
	case "disable":
		return fmt.Sprintf("EnableRule(%s,false)", o.Id)
	case "parents":
		return "SetParents([P])"
	case "noparents":
		return "SetParents([])"
	case "clear":
		return "Clear()"
	}
	return "?"
}

func c06Ops() []c06op {
	var ops []c06op
	for _, id := range []string{"x", "y"} {
		for i := range c06FactNames {
			ops = append(ops, c06op{"addfact", id, i})
		}
	}
	for _, id := range []string{"x", "y"} {
		ops = append(ops, c06op{"addrule", id, 0}, c06op{"addrule", id, 1})
	}
	ops = append(ops, c06op{"rem", "x", 0}, c06op{"rem", "y", 0}, c06op{"remrule", "x", 0}, c06op{"remrule", "y", 0})
	ops = append(ops, c06op{"disable", "x", 0}, c06op{"enable", "x", 0}, c06op{"parents", "", 0}, c06op{"noparents", "", 0}, c06op{"clear", "", 0})
	return ops
}

var c06Seq int64

type c06world struct {
	kind, backend string
	clock         interface {
		Now() time.Time
		Advance(time.Duration)
	}
	ctx      *core.Context
	inner    core.Storage
	rec      *lib.RecStore
	loc      *core.Location
	ploc     *core.Location
	boltFile string
}

func newC06World(kind, backend string) *c06world {
	w := &c06world{kind: kind, backend: backend}
	w.clock = lib.Clock()
	w.ctx = lib.Ctx()
	switch backend {
	case "memory":
		w.inner = lib.MemStore(w.ctx)
	case "bolt":
		dir := os.Getenv("VERIF_WORKDIR")
		if dir == "" {
			dir = os.TempDir()
		}
		w.boltFile = filepath.Join(dir, fmt.Sprintf("c06-%d-%d.db", os.Getpid(), atomic.AddInt64(&c06Seq, 1)))
		bs, err := boltstore.NewStorage(w.ctx, w.boltFile)
		if err != nil {
			panic(err)
		}
		w.inner = bs
	}
	w.rec = lib.NewRecStore(w.inner)
	w.loc, w.ploc = w.open()
	return w
}

// open builds a location (and the empty parent P it may refer to) from storage.
func (w *c06world) open() (*core.Location, *core.Location) {
	loc, err := lib.NewLoc(w.ctx, w.kind, "L", w.rec)
	if err != nil {
		panic(fmt.Sprintf("c06 open: %v", err))
	}
	ploc := lib.MustLoc(w.ctx, w.kind, "P", lib.MemStore(w.ctx))
	prov := core.NewSimpleLocationProvider(map[string]*core.Location{"L": loc, "P": ploc})
	loc.Provider, ploc.Provider = prov, prov
	return loc, ploc
}

func (w *c06world) close() {
	if w.boltFile != "" {
		w.inner.Close(w.ctx)
		os.Remove(w.boltFile)
	}
}

func (w *c06world) apply(op c06op) error {
	var err error
	switch op.Kind {
	case "addfact":
		_, err = w.loc.AddFact(w.ctx, op.Id, core.Map(c06Fact(op.Idx)))
	case "addrule":
		_, err = w.loc.AddRule(w.ctx, op.Id, core.Map(c06Rule(op.Idx)))
	case "rem":
		_, err = w.loc.RemFact(w.ctx, op.Id)
	case "remrule":
		_, err = w.loc.RemRule(w.ctx, op.Id)
	case "enable":
		err = w.loc.EnableRule(w.ctx, op.Id, true)
	case "disable":
		err = w.loc.EnableRule(w.ctx, op.Id, false)
	case "parents":
		_, err = w.loc.SetParents(w.ctx, []string{"P"})
	case "noparents":
		_, err = w.loc.SetParents(w.ctx, []string{})
	case "clear":
		err = w.loc.Clear(w.ctx)
	}
	return err
}

// durable: id -> canonical JSON of what storage holds for location L.
func (w *c06world) durable() map[string]string {
	m := lib.Pairs(w.ctx, w.inner, "L")
	out := map[string]string{}
	for k, v := range m {
		var x interface{}
		if json.Unmarshal([]byte(v), &x) == nil {
			out[k] = lib.Canon(x)
		} else {
			out[k] = "!unparsable:" + v
		}
	}
	return out
}

// live: id -> canonical JSON of what memory holds.
func (w *c06world) live() map[string]string {
	d := core.VerifDump(w.loc.VerifState())
	out := map[string]string{}
	facts, _ := d["facts"].(map[string]interface{})
	for id, f := range facts {
		if m, ok := f.(map[string]interface{}); ok {
			if inner, isLinear := m["m"]; isLinear && d["kind"] == "linear" {
				out[id] = lib.Canon(lib.DeepCopy(inner))
				continue
			}
		}
		out[id] = lib.Canon(lib.DeepCopy(f))
	}
	return out
}

// vector: everything a client can observe about a location.
func c06Vector(ctx *core.Context, loc *core.Location, ids []string) map[string]string {
	v := map[string]string{}
	for _, id := range ids {
		f, err := loc.GetFact(ctx, id)
		if err != nil {
			v["get:"+id] = lib.ErrClass(err)
		} else {
			v["get:"+id] = lib.Canon(map[string]interface{}(f))
		}
	}
	for _, p := range []string{`{"k":"?v"}`, `{"rule":"?r"}`, `{"deleteWith":["x"]}`} {
		sr, err := loc.SearchFacts(ctx, core.Map(lib.JM(p)), false)
		if err != nil {
			v["search:"+p] = "error"
			continue
		}
		var xs []string
		for _, f := range sr.Found {
			var m interface{}
			json.Unmarshal([]byte(f.Js), &m)
			xs = append(xs, f.Id+"="+strings.Join(lib.BindingsSet(f.Bindingss), ";")+"@"+lib.Canon(m))
		}
		sort.Strings(xs)
		v["search:"+p] = strings.Join(xs, " | ")
	}
	ev := core.Map{"e": "1"}
	rs, err := loc.SearchRules(ctx, ev, true)
	if err != nil {
		v["rules"] = "error"
	} else {
		v["rules"] = strings.Join(lib.SortedKeys(rs), ",")
	}
	fr, cond := loc.ProcessEvent(ctx, core.Map{"e": "1"})
	if cond != nil {
		v["event"] = "cond"
	} else {
		var xs []string
		for _, ch := range fr.Children {
			xs = append(xs, fmt.Sprintf("%s/%d", ch.Rule.Id, len(ch.Children)))
		}
		sort.Strings(xs)
		v["event"] = strings.Join(xs, ",") + "|" + lib.Canon(fr.Values)
	}
	ps, err := loc.GetParents(ctx)
	v["parents"] = fmt.Sprint(ps, err != nil)
	for _, id := range []string{"x", "y"} {
		en, err := loc.RuleEnabled(ctx, id)
		v["enabled:"+id] = fmt.Sprint(en, err != nil)
	}
	n, _ := loc.StateSize(ctx)
	v["size"] = fmt.Sprint(n)
	return v
}

type c06inst struct {
	kind, backend string
	ops           []c06op
	w             *lib.Worker
	world         *c06world
	path          []int
	tier          string
}

func (in *c06inst) cfg() string { return in.kind + "/" + in.backend }

func (in *c06inst) Close() { in.world.close() }

func (in *c06inst) Key() string {
	return core.VerifKeyJSON(in.world.loc.VerifState()) + "|" + lib.Canon(in.world.durable())
}

func (in *c06inst) Apply(opi int) *lib.Violation {
	op := in.ops[opi]
	in.path = append(in.path, opi)
	if err := in.world.apply(op); err != nil {
		return fviol("C06/"+in.cfg()+"/operation-failed", fmt.Sprintf("[%s] %s failed without any injected fault: %v", in.cfg(), op, err), "ok", err.Error())
	}
	return nil
}

// rerun builds a fresh world and applies path[:n]; it reports the number of
// mutating storage calls made so far.
func (in *c06inst) rerun(n int) *c06world {
	w := newC06World(in.kind, in.backend)
	for _, opi := range in.path[:n] {
		w.apply(in.ops[opi])
	}
	return w
}

func allIds(ms ...map[string]string) []string {
	set := map[string]struct{}{}
	for _, m := range ms {
		for k := range m {
			set[k] = struct{}{}
		}
	}
	return lib.SortedKeys(set)
}

func (in *c06inst) Battery() (vs []*lib.Violation) {
	world := in.world
	cfg := in.cfg()
	// ---- reload equivalence ------------------------------------------------
	world.clock.Advance(10 * time.Second)
	reloaded, _ := func() (l *core.Location, p *core.Location) {
		defer func() {
			if r := recover(); r != nil {
				vs = append(vs, viol("C06/"+cfg+"/reload-failed", fmt.Sprintf("[%s] a location cannot be rebuilt from storage: %v", cfg, r), "ok", fmt.Sprint(r)))
			}
		}()
		return world.open()
	}()
	if reloaded == nil {
		return vs
	}
	ids := append(core.VerifFactIds(world.loc.VerifState()), core.VerifFactIds(reloaded.VerifState())...)
	ids = append(ids, "x", "y")
	ids = lib.Dedup(ids)
	lv := c06Vector(world.ctx, world.loc, ids)
	rv := c06Vector(world.ctx, reloaded, ids)
	for _, k := range lib.SortedKeys(lv) {
		if lv[k] != rv[k] {
			sig := "C06/" + cfg + "/reload-differs:" + strings.SplitN(k, ":", 2)[0]
			vs = append(vs, viol(sig, fmt.Sprintf("[%s] after the history, observation %q is %s on the live location and %s on a location rebuilt from storage", cfg, k, lv[k], rv[k]), lv[k], rv[k]))
			break
		}
	}
	if len(vs) == 0 {
		in.w.Nontrivial(cfg + "|" + lib.Canon(lv))
	}
	if len(in.path) == 0 {
		return vs
	}
	// ---- crash points and faults inside the last operation ----------------
	last := in.ops[in.path[len(in.path)-1]]
	pre := in.rerun(len(in.path) - 1)
	base := pre.rec.Mutations()
	sPrev := pre.durable()
	pre.close()
	sNext := world.durable()
	calls := world.rec.Mutations() - base
	in.w.Count("storage_calls_in_explored_transitions", int64(calls))
	for j := 0; j < calls; j++ {
		// crash at call j
		cw := in.rerun(len(in.path) - 1)
		cw.rec.CrashAt = base + j
		func() {
			defer func() { recover() }()
			cw.apply(last)
		}()
		rj := cw.durable()
		cw.close()
		in.w.Count("crash_points", 1)
		in.w.Eval(1)
		for _, id := range allIds(sPrev, sNext, rj) {
			if rj[id] != sPrev[id] && rj[id] != sNext[id] {
				vs = append(vs, viol("C06/"+cfg+"/crash-leaves-foreign-state", fmt.Sprintf("[%s] crash at storage call %d of %s: id %s holds %q after restart, neither its value before the operation (%q) nor after it (%q)", cfg, j, last, id, rj[id], sPrev[id], sNext[id]), []string{sPrev[id], sNext[id]}, rj[id]))
				break
			}
		}
		// fault at call j
		fw := in.rerun(len(in.path) - 1)
		fw.rec.FailAt = base + j
		err := fw.apply(last)
		in.w.Count("fault_points", 1)
		in.w.Eval(1)
		if err == nil {
			vs = append(vs, viol("C06/"+cfg+"/storage-failure-reported-as-success", fmt.Sprintf("[%s] storage call %d (%v) of %s failed, but the operation returned success", cfg, j, fw.rec.Calls[len(fw.rec.Calls)-1], last), "error", "nil"))
		}
		// a failed operation may have applied or not, id by id - but it must not leave
		// any id with a value it had neither before nor would have had after (in
		// particular it must not destroy what earlier, acknowledged operations stored)
		fd := fw.durable()
		for _, id := range allIds(sPrev, sNext, fd) {
			if fd[id] != sPrev[id] && fd[id] != sNext[id] {
				vs = append(vs, viol("C06/"+cfg+"/failed-operation-leaves-foreign-state", fmt.Sprintf("[%s] storage call %d of %s failed (the operation reported %v): id %s holds %q in storage, neither its value before the operation (%q) nor after it (%q)", cfg, j, last, err, id, fd[id], sPrev[id], sNext[id]), []string{sPrev[id], sNext[id]}, fd[id]))
				break
			}
		}
		fw.close()
		// one more operation after the fault: acknowledged work must be durable
		for ci, cop := range in.ops {
			if in.tier != "thorough" && !(cop == last || cop.Id == last.Id) {
				continue
			}
			cw2 := in.rerun(len(in.path) - 1)
			cw2.rec.FailAt = base + j
			cw2.apply(last)
			cerr := cw2.apply(cop)
			in.w.Count("post_fault_continuations", 1)
			in.w.Eval(1)
			_ = ci
			if cerr == nil {
				lv, dv := cw2.live(), cw2.durable()
				touched := c06Touches(cop)
				for _, id := range allIds(lv, dv) {
					if lv[id] != dv[id] && touched(id) {
						vs = append(vs, viol("C06/"+cfg+"/acknowledged-after-fault-not-durable", fmt.Sprintf("[%s] after storage call %d of %s failed, %s was acknowledged, yet id %s is %q in memory and %q in storage", cfg, j, last, cop, id, lv[id], dv[id]), lv[id], dv[id]))
						break
					}
				}
			}
			cw2.close()
		}
	}
	return vs
}

// c06Touches: the ids an operation names (its own id, or everything for Clear).
func c06Touches(op c06op) func(id string) bool {
	switch op.Kind {
	case "clear":
		return func(string) bool { return true }
	case "addfact", "addrule":
		return func(id string) bool { return id == op.Id }
	case "rem", "remrule":
		return func(id string) bool { return id == op.Id }
	case "enable", "disable":
		return func(id string) bool { return id == "!"+op.Id+".disabled" }
	case "parents", "noparents":
		return func(id string) bool { return id == "!.parents" }
	}
	return func(string) bool { return false }
}

func c06Scenarios(w *lib.Worker) []*lib.Scenario {
	ops := c06Ops()
	text := make([]string, len(ops))
	for i, o := range ops {
		text[i] = o.String()
	}
	var scs []*lib.Scenario
	for _, backend := range []string{"memory", "bolt"} {
		for _, kind := range []string{"indexed", "linear"} {
			kind, backend := kind, backend
			depth := 3
			if w.Tier == "thorough" {
				depth = 4
			}
			if backend == "memory" {
				depth++
			}
			scs = append(scs, &lib.Scenario{
				Name: "C06-" + kind + "-" + backend, Ops: text, MaxDepth: depth,
				Fresh: func() lib.Instance {
					return &c06inst{kind: kind, backend: backend, ops: ops, w: w, world: newC06World(kind, backend), tier: w.Tier}
				},
			})
		}
	}
	return scs
}

// ---- back-end contract -------------------------------------------------------

func c06Backend(w *lib.Worker) {
	type wop struct {
		name string
		do   func(ctx *core.Context, s core.Storage) error
	}
	big := strings.Repeat("B", 20000)
	wops := []wop{
		{"Add(k1,longer)", func(ctx *core.Context, s core.Storage) error {
			return s.Add(ctx, "L", &core.Pair{K: []byte("k1"), V: []byte(`{"k":"` + strings.Repeat("L", 300) + `"}`)})
		}},
		{"Add(k1,shorter)", func(ctx *core.Context, s core.Storage) error {
			return s.Add(ctx, "L", &core.Pair{K: []byte("k1"), V: []byte(`{"k":"s"}`)})
		}},
		{"Add(k3,20kB)", func(ctx *core.Context, s core.Storage) error {
			return s.Add(ctx, "L", &core.Pair{K: []byte("k3"), V: []byte(`{"k":"` + big + `"}`)})
		}},
		{"Add(k0,small)", func(ctx *core.Context, s core.Storage) error {
			return s.Add(ctx, "L", &core.Pair{K: []byte("k0"), V: []byte(`{"k":"zero"}`)})
		}},
		{"Remove(k1)", func(ctx *core.Context, s core.Storage) error { _, e := s.Remove(ctx, "L", []byte("k1")); return e }},
		{"Remove(k2)", func(ctx *core.Context, s core.Storage) error { _, e := s.Remove(ctx, "L", []byte("k2")); return e }},
		{"Clear", func(ctx *core.Context, s core.Storage) error { _, e := s.Clear(ctx, "L"); return e }},
	}
	depth := 3
	if w.Tier == "thorough" {
		depth = 4
	}
	var paths [][]int
	var gen func(p []int)
	gen = func(p []int) {
		if len(p) > 0 {
			paths = append(paths, append([]int(nil), p...))
		}
		if len(p) == depth {
			return
		}
		for i := range wops {
			gen(append(p, i))
		}
	}
	gen(nil)
	for _, backend := range []string{"memory", "bolt"} {
		for pi, p := range paths {
			if !w.Mine(pi) {
				continue
			}
			names := make([]string, len(p))
			for i, o := range p {
				names[i] = wops[o].name
			}
			w.Journal(lib.Canon(map[string]interface{}{"backend_contract": backend, "writes": names}))
			world := newC06World("linear", backend)
			ctx := world.ctx
			world.inner.Add(ctx, "L", &core.Pair{K: []byte("k1"), V: []byte(`{"k":"one"}`)})
			world.inner.Add(ctx, "L", &core.Pair{K: []byte("k2"), V: []byte(`{"k":"two"}`)})
			pairs, err := world.inner.Load(ctx, "L")
			if err != nil {
				panic(err)
			}
			snap := map[string]string{}
			for _, pr := range pairs {
				snap[string(pr.K)] = string(pr.V)
			}
			// a LinearState loaded now keeps what Load handed out
			lin, _ := lib.NewLoc(ctx, "linear", "L", world.inner)
			for step, o := range p {
				if err := wops[o].do(ctx, world.inner); err != nil {
					panic(err)
				}
				w.Eval(1)
				w.AddTrans(1)
				now := map[string]string{}
				for _, pr := range pairs {
					now[string(pr.K)] = string(pr.V)
				}
				if lib.Canon(now) != lib.Canon(snap) {
					w.Violation(lib.Violation{Scenario: "backend-contract", Signature: "C06/" + backend + "/loaded-data-changed-by-later-writes",
						Summary: fmt.Sprintf("[%s] pairs returned by Load were %v; after later writes %v the same slices read %v", backend, snap, names[:step+1], now),
						Replay:  map[string]interface{}{"backend_contract": backend, "writes": names}})
					break
				}
				if lin != nil {
					sr, err := lin.SearchFacts(ctx, core.Map{"k": "?v"}, false)
					bad := err != nil
					if !bad {
						got := map[string]string{}
						for _, f := range sr.Found {
							got[f.Id] = f.Js
						}
						bad = lib.Canon(got) != lib.Canon(snap)
					}
					if bad {
						w.Violation(lib.Violation{Scenario: "backend-contract", Signature: "C06/" + backend + "/linear-state-facts-changed-by-later-storage-writes",
							Summary: fmt.Sprintf("[%s] a LinearState loaded before direct storage writes %v no longer returns the JSON it loaded", backend, names[:step+1]),
							Replay:  map[string]interface{}{"backend_contract": backend, "writes": names}})
						break
					}
				}
			}
			world.close()
			w.AddTraces(1)
		}
	}
}

func init() {
	lib.Register(&lib.Check{
		ID:    "C06",
		Level: "model_checking",
		Rule: "explicit-state BFS over AddFact(6 expiry/dependency shapes)/AddRule/RemFact/RemRule/EnableRule/SetParents/Clear histories on ids {x,y}, {indexed,linear} x {memory,bolt}; per explored transition: reload-equivalence of the full observation vector (clock +10 s), every crash point inside the operation (storage call j and later not applied), every single storage call failed (+ one further operation); plus every write history up to length 3/4 against data previously handed out by Load; " +
			"non-trivial = distinct (configuration, observation vector) pairs for which live and reloaded locations were compared",
		Assumptions: []string{
			"crash model: each Storage call is atomic and durable when it returns (Bolt's single-transaction Add/Remove/Clear); torn pages inside bolt's file are out of scope",
			"an interrupted operation may leave each id it affects in its old or its new state",
			"after an injected fault only ids named by a later acknowledged operation are required to agree between memory and storage",
		},
		CrashIsViolation: true,
		CrashSignature: func(j string) (string, string) {
			if strings.Contains(j, "backend_contract") {
				b := "memory"
				if strings.Contains(j, `"bolt"`) {
					b = "bolt"
				}
				return "C06/" + b + "/loaded-data-access-crashes-after-later-writes", "process died while reading data handed out by Storage.Load after later writes"
			}
			return "C06/crash:unclassified", "worker died"
		},
		Budget: func(tier string) time.Duration {
			if tier == "thorough" {
				return 30 * time.Minute
			}
			return 5 * time.Minute
		},
		Run: func(w *lib.Worker) {
			c06Backend(w)
			for _, sc := range c06Scenarios(w) {
				w.BFS(sc)
			}
		},
		ReplayFn: func(w *lib.Worker, raw json.RawMessage) {
			if strings.Contains(string(raw), "backend_contract") {
				c06Backend(w)
				return
			}
			w.ReplaySeq(raw, c06Scenarios(w))
		},
	})
}
