package main

// C20 — configured limits are enforced and recover (sequential parts).
//
// Capacity (engine SEQ): MaxFacts in {1,2,3}; AddFact(new / existing id),
// AddRule, RemFact, EnableRule(.,false) (adds a property fact without a
// capacity check and so moves the boundary), depth 5: after every SUCCESSFUL
// add StateSize <= MaxFacts; a refused add leaves the privileged snapshot
// unchanged.
//
// OutboundBreaker (explicit-state over virtual time): limit in {1,2,3},
// interval in {20ms, 1s} (thorough adds 30ns and 10ns); all arrival patterns up
// to the length bound over {Do, advance 1/4, 1/2, 1, 3/2 ticks, 1/2 interval,
// 1 interval}, deduplicated on (window counts, now-updated, recent
// admissions).  For every admission at t: admissions in (t-interval, t] <=
// limit.  Recovery: no admission in (t-2*interval, t] => Do at t admits — a
// deliberately generous reading of "admits again once earlier calls have aged
// out of the window, even while it is being polled".
//
// The concurrent clauses (two adds at the boundary, concurrent Do, Throttle)
// are explored by the schedule engine (schedcheck, same property id).

import (
	"encoding/json"
	"fmt"
	"strings"
	"time"

	"github.com/Comcast/rulio/core"
	"verifharness/lib"
)

// ---- capacity ----------------------------------------------------------------

type c20op struct {
	Kind string
	Id   string
}

func (o c20op) String() string { return fmt.Sprintf("%s(%s)", o.Kind, o.Id) }

func c20Ops() []c20op {
	var ops []c20op
	for _, id := range []string{"a", "b", "c", "d"} {
		ops = append(ops, c20op{"AddFact", id})
	}
	for _, id := range []string{"a", "r"} {
		ops = append(ops, c20op{"AddRule", id})
	}
	for _, id := range []string{"a", "b", "r"} {
		ops = append(ops, c20op{"RemFact", id})
	}
	ops = append(ops, c20op{"DisableRule", "a"}, c20op{"DisableRule", "r"}, c20op{"EnableRule", "a"}, c20op{"AddFactGenerated", ""})
	return ops
}

type c20inst struct {
	kind  string
	max   int
	ops   []c20op
	w     *lib.Worker
	ctx   *core.Context
	store *core.MemStorage
	loc   *core.Location
}

func (in *c20inst) Close() {}
func (in *c20inst) snap() string {
	return stripCached(core.VerifDumpJSON(in.loc.VerifState()) + "|" + lib.Canon(lib.Pairs(in.ctx, in.store, "L")))
}
func (in *c20inst) Key() string {
	// generated ids are random: hash only their number
	s := in.snap()
	return s
}

func (in *c20inst) Apply(opi int) *lib.Violation {
	op := in.ops[opi]
	cfg := fmt.Sprintf("%s/MaxFacts=%d", in.kind, in.max)
	before := in.snap()
	var err error
	isAdd := false
	switch op.Kind {
	case "AddFact":
		isAdd = true
		_, err = in.loc.AddFact(in.ctx, op.Id, core.Map{"k": op.Id})
	case "AddFactGenerated":
		isAdd = true
		var id string
		id, err = in.loc.AddFact(in.ctx, "", core.Map{"k": "gen"})
		if err == nil {
			// keep the state space finite and replayable: rename is impossible, so remove it again
			defer in.loc.RemFact(in.ctx, id)
		}
	case "AddRule":
		isAdd = true
		_, err = in.loc.AddRule(in.ctx, op.Id, core.Map(lib.JM(`{"when":{"pattern":{"e":"?e"}},"action":{"code":"1"}}`)))
	case "RemFact":
		_, err = in.loc.RemFact(in.ctx, op.Id)
		err = nil
	case "DisableRule":
		err = in.loc.EnableRule(in.ctx, op.Id, false)
		err = nil
	case "EnableRule":
		err = in.loc.EnableRule(in.ctx, op.Id, true)
		err = nil
	}
	if !isAdd {
		return nil
	}
	n, _ := in.loc.StateSize(in.ctx)
	if err == nil {
		if n > in.max {
			return viol("C20/"+in.kind+"/capacity-exceeded-by-add", fmt.Sprintf("[%s] %s succeeded and the location now holds %d facts+rules", cfg, op, n), in.max, n)
		}
		in.w.Nontrivial(fmt.Sprintf("%s|%s|%d", cfg, op, n))
		return nil
	}
	if !strings.Contains(err.Error(), "capacity") {
		return fviol("C20/"+in.kind+"/add-failed-for-other-reason", fmt.Sprintf("[%s] %s: %v", cfg, op, err), nil, err.Error())
	}
	if after := in.snap(); after != before {
		return fviol("C20/"+in.kind+"/refused-add-has-side-effects", fmt.Sprintf("[%s] %s was refused for capacity but state or storage changed", cfg, op), before, after)
	}
	in.w.Nontrivial(fmt.Sprintf("%s|%s|refused@%d", cfg, op, n))
	return nil
}

func (in *c20inst) Battery() []*lib.Violation { return nil }

func c20CapScenarios(w *lib.Worker) []*lib.Scenario {
	ops := c20Ops()
	text := make([]string, len(ops))
	for i, o := range ops {
		text[i] = o.String()
	}
	depth := 5
	if w.Tier == "thorough" {
		depth = 7
	}
	var scs []*lib.Scenario
	for _, kind := range []string{"indexed", "linear"} {
		for _, max := range []int{1, 2, 3} {
			kind, max := kind, max
			scs = append(scs, &lib.Scenario{
				Name: fmt.Sprintf("C20-capacity-%s-%d", kind, max), Ops: text, MaxDepth: depth, NoBattery: true,
				Fresh: func() lib.Instance {
					ctx := lib.Ctx()
					store := lib.MemStore(ctx)
					loc := lib.MustLoc(ctx, kind, "L", store)
					c := lib.QuietControl()
					c.MaxFacts = max
					loc.SetControl(c)
					return &c20inst{kind: kind, max: max, ops: ops, w: w, ctx: ctx, store: store, loc: loc}
				},
			})
		}
	}
	return scs
}

// ---- breaker -----------------------------------------------------------------

type c20bcase struct {
	Limit    int64    `json:"limit"`
	Interval string   `json:"interval"`
	Steps    []string `json:"steps"`
}

var c20Steps = []string{"Do", "+1/4tick", "+1/2tick", "+1tick", "+3/2tick", "+1/2interval", "+1interval",
	// steady polling for one whole interval, faster and slower than the breaker's tick
	"poll-every-1/2tick-for-1interval", "poll-every-3/2tick-for-1interval"}

func c20StepDur(step string, interval time.Duration) time.Duration {
	tick := interval / 20
	switch step {
	case "+1/4tick":
		return tick / 4
	case "+1/2tick":
		return tick / 2
	case "+1tick":
		return tick
	case "+3/2tick":
		return tick * 3 / 2
	case "+1/2interval":
		return interval / 2
	case "+1interval":
		return interval
	}
	return 0
}

// c20Breaker runs one arrival pattern; returns the violation (if any) and the canonical state.
func c20Breaker(limit int64, interval time.Duration, steps []int) (*lib.Violation, string) {
	clk := lib.Clock()
	b, err := core.NewOutboundBreaker(limit, interval)
	if err != nil {
		return &lib.Violation{Signature: "C20/breaker/constructor-failed", Summary: err.Error()}, ""
	}
	var admits []time.Time
	names := make([]string, len(steps))
	for i, s := range steps {
		names[i] = c20Steps[s]
	}
	c := c20bcase{limit, interval.String(), names}
	var bad *lib.Violation
	do := func(i int) {
		now := clk.Now()
		admitted, _ := b.Do(nil)
		recent2 := 0
		for _, a := range admits {
			if a.After(now.Add(-2 * interval)) {
				recent2++
			}
		}
		if admitted {
			admits = append(admits, now)
			inWin := 0
			for _, a := range admits {
				if a.After(now.Add(-interval)) {
					inWin++
				}
			}
			if int64(inWin) > limit && bad == nil {
				bad = &lib.Violation{Signature: "C20/breaker/rate-limit-exceeded", Replay: c,
					Summary: fmt.Sprintf("breaker(limit=%d, interval=%v): step %d admitted call #%d within one interval (pattern %v)", limit, interval, i, inWin, names)}
			}
		} else if recent2 == 0 && bad == nil {
			bad = &lib.Violation{Signature: "C20/breaker/does-not-recover-while-polled", Replay: c,
				Summary: fmt.Sprintf("breaker(limit=%d, interval=%v): step %d (T0+%v) refused although the last admission is more than two intervals old (pattern %v)", limit, interval, i, now.Sub(lib.T0), names)}
		}
	}
	for i, s := range steps {
		name := c20Steps[s]
		switch {
		case name == "Do":
			do(i)
		case strings.HasPrefix(name, "poll-every-"):
			gap := interval / 40
			if strings.Contains(name, "3/2tick") {
				gap = interval * 3 / 40
			}
			if gap <= 0 {
				gap = 1
			}
			for el := time.Duration(0); el < interval; el += gap {
				clk.Advance(gap)
				do(i)
			}
		default:
			clk.Advance(c20StepDur(name, interval))
		}
		if bad != nil {
			return bad, ""
		}
	}
	counts, upd, _, _ := core.VerifBreakerState(b)
	now := clk.Now()
	var rel []int64
	for _, a := range admits {
		if a.After(now.Add(-2 * interval)) {
			rel = append(rel, int64(now.Sub(a)))
		}
	}
	return nil, fmt.Sprint(counts, now.UnixNano()-upd, rel)
}

func c20BreakerSearch(w *lib.Worker) {
	intervals := []time.Duration{20 * time.Millisecond, time.Second}
	if w.Tier == "thorough" {
		intervals = append(intervals, 30*time.Nanosecond, 10*time.Nanosecond, 400*time.Nanosecond)
	}
	maxLen := 8
	if w.Tier == "thorough" {
		maxLen = 11
	}
	n := 0
	for _, interval := range intervals {
		for _, limit := range []int64{1, 2, 3} {
			n++
			if !w.Mine(n) {
				continue
			}
			w.Journal(lib.Canon(c20bcase{limit, interval.String(), nil}))
			seen := map[string]bool{}
			frontier := [][]int{nil}
			for depth := 1; depth <= maxLen && len(frontier) > 0; depth++ {
				var next [][]int
				for _, p := range frontier {
					for s := range c20Steps {
						if w.TimeUp() {
							w.Cap("time budget reached in breaker pattern search")
							return
						}
						path := append(append([]int{}, p...), s)
						v, key := c20Breaker(limit, interval, path)
						w.Eval(1)
						w.AddTrans(int64(len(path)))
						w.AddTraces(1)
						if v != nil {
							v.Scenario = "breaker"
							w.Violation(*v)
							continue
						}
						if seen[key] {
							continue
						}
						seen[key] = true
						w.AddStates(1)
						w.Nontrivial(fmt.Sprintf("breaker|%d|%v|%s", limit, interval, key))
						next = append(next, path)
					}
				}
				frontier = next
				w.Depth(depth)
			}
		}
	}
}

func init() {
	lib.Register(&lib.Check{
		ID:    "C20",
		Level: "model_checking",
		Rule: "capacity: BFS over AddFact(4 ids + generated)/AddRule/RemFact/EnableRule sequences, MaxFacts in {1,2,3}, depth 5 quick / 7 thorough, both states; breaker: explicit-state search over arrival patterns (Do / clock advances of 1/4, 1/2, 1, 3/2 ticks, 1/2 and 1 interval / steady polling every 1/2 or 3/2 tick for one interval) up to length 8 / 11 for limit in {1,2,3} x interval in {20ms,1s} (+ sub-20ns intervals thorough) under the virtual clock, states deduplicated on (window counts, now-updated, recent admissions); " +
			"non-trivial = distinct (configuration, add, resulting size or refusal) and distinct breaker states",
		Assumptions: []string{
			"recovery is read generously: Do must admit when no admission happened in the last TWO intervals",
			"EnableRule(.,false) is not an add operation: it may take the count past MaxFacts; only successful adds are required to end at or below the maximum",
		},
		CrashIsViolation: true,
		CrashSignature: func(j string) (string, string) {
			if strings.Contains(j, `"limit"`) {
				return "C20/breaker/panics-for-interval-below-20ns", "OutboundBreaker panicked (integer divide by zero) for the journaled limit/interval"
			}
			return "C20/crash:unclassified", "worker died"
		},
		Budget: func(tier string) time.Duration {
			if tier == "thorough" {
				return 20 * time.Minute
			}
			return 4 * time.Minute
		},
		Run: func(w *lib.Worker) {
			c20BreakerSearch(w)
			for i, sc := range c20CapScenarios(w) {
				if i%w.NShards == w.Shard%6 || w.NShards == 1 {
					_ = i
				}
				w.BFS(sc)
			}
		},
		ReplayFn: func(w *lib.Worker, raw json.RawMessage) {
			var c c20bcase
			if json.Unmarshal(raw, &c) == nil && c.Limit > 0 {
				d, _ := time.ParseDuration(c.Interval)
				var steps []int
				for _, s := range c.Steps {
					for i, n := range c20Steps {
						if n == s {
							steps = append(steps, i)
						}
					}
				}
				if v, _ := c20Breaker(c.Limit, d, steps); v != nil {
					w.Violation(*v)
				}
				return
			}
			w.ReplaySeq(raw, c20CapScenarios(w))
		},
	})
}
