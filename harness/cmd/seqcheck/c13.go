package main

// C13 — no input can crash, hang or poison a location.
//
// Engine GEN, journaled and process-isolated: every document of a bounded JSON
// language is used in every role (fact, rule, pattern, query, event, and - for
// the HTTP layer - whole request bodies) at every layer (core.Location,
// sys.System with a cron service, service.HTTPService.ServeHTTP), on both
// states.  The language is (skeleton x value): a skeleton puts a hole at one
// reserved position (rule, when, pattern, condition, action(s), code, schedule,
// expires, ttl, deleteWith, id, and/or/not, trigger!, evaluate!, location,
// inherited, uri, a variable-looking key, ...) and the hole ranges over a pool
// of values: all leaves {number, bool, null, "", plain string, "?x", "?"}, every
// container of them up to nesting 2 (3 thorough) including empty and
// heterogeneous ones, variable-looking keys, and maps/arrays nested 100 and
// 3000 deep.  Each input runs on a fresh, pre-populated location, followed by
// canary traffic on the same location.
//
// A case runs in a child process that journals the case before touching it:
//   - every call is guarded by recover (a panic is a violation),
//   - by a watchdog (a call that does not return is re-run alone with a 60 s
//     watchdog before it counts as a hang),
//   - a child that dies (stack overflow, fatal runtime error) is attributed to
//     the journaled case, re-run alone to confirm, and the supervisor carries on
//     with the next case;
//   - canaries: add/find/fire/remove must still work after the input.

import (
	"bufio"
	"bytes"
	"encoding/json"
	"fmt"
	"net/http/httptest"
	"os"
	"os/exec"
	"regexp"
	"runtime"
	"runtime/debug"
	"strconv"
	"strings"
	"time"

	"github.com/Comcast/rulio/core"
	"github.com/Comcast/rulio/service"
	"github.com/Comcast/rulio/sys"
	"verifharness/lib"
)

// ---- the input language -----------------------------------------------------

func c13Nest(depth int, array bool) interface{} {
	var v interface{} = "?x"
	for i := 0; i < depth; i++ {
		if array {
			v = []interface{}{v}
		} else {
			v = map[string]interface{}{"a": v}
		}
	}
	return v
}

type c13val struct {
	Name string
	V    interface{}
}

func c13Values(tier string) []c13val {
	leaves := []interface{}{5.0, true, nil, "", "s", "?x", "?"}
	var out []c13val
	seen := map[string]bool{}
	add := func(v interface{}) {
		k := lib.Canon(v)
		if len(k) > 200 {
			k = fmt.Sprintf("%s...(%d bytes)", k[:60], len(k))
		}
		if seen[k] {
			return
		}
		seen[k] = true
		out = append(out, c13val{k, v})
	}
	for _, l := range leaves {
		add(l)
	}
	level := func(inner []interface{}) []interface{} {
		var next []interface{}
		next = append(next, map[string]interface{}{}, []interface{}{})
		for _, v := range inner {
			next = append(next, map[string]interface{}{"a": v}, map[string]interface{}{"?x": v}, []interface{}{v})
		}
		few := inner
		if len(few) > 9 {
			few = append(append([]interface{}{}, inner[:7]...), inner[len(inner)-2:]...)
		}
		for _, a := range few {
			for _, b := range few {
				next = append(next, []interface{}{a, b})
			}
		}
		for _, a := range []interface{}{"s", "?x", 5.0} {
			for _, b := range few {
				next = append(next, map[string]interface{}{"a": a, "b": b})
			}
		}
		return next
	}
	l1 := level(leaves)
	for _, v := range l1 {
		add(v)
	}
	// nesting 2: containers of a reduced set of level-1 containers
	red := []interface{}{map[string]interface{}{}, []interface{}{}, map[string]interface{}{"a": "?x"}, map[string]interface{}{"?x": "s"}, map[string]interface{}{"?x": "?x"},
		[]interface{}{"?x"}, []interface{}{"s", 5.0}, []interface{}{"?x", "?x"}, map[string]interface{}{"a": nil}, []interface{}{nil}}
	if tier == "thorough" {
		red = l1
	}
	l2 := level(red)
	for _, v := range l2 {
		add(v)
	}
	if tier == "thorough" {
		for _, v := range level(red[:12]) {
			for _, w := range []interface{}{map[string]interface{}{"a": v}, []interface{}{v}, map[string]interface{}{"?x": v}} {
				add(w)
			}
		}
	}
	out = append(out, c13val{"map-nested-100-deep", c13Nest(100, false)}, c13val{"array-nested-100-deep", c13Nest(100, true)},
		c13val{"map-nested-3000-deep", c13Nest(3000, false)}, c13val{"array-nested-3000-deep", c13Nest(3000, true)})
	return out
}

type c13skel struct {
	Role string // fact rule pattern query event request
	Name string
	Make func(v interface{}) interface{}
}

func c13Skeletons() []c13skel {
	m := func(kv ...interface{}) map[string]interface{} {
		out := map[string]interface{}{}
		for i := 0; i+1 < len(kv); i += 2 {
			out[kv[i].(string)] = kv[i+1]
		}
		return out
	}
	A := func() interface{} { return m("code", "1") }
	P := func() interface{} { return m("pattern", m("e", "?e")) }
	var sk []c13skel
	add := func(role, name string, f func(v interface{}) interface{}) { sk = append(sk, c13skel{role, name, f}) }
	// facts
	add("fact", "v", func(v interface{}) interface{} { return v })
	add("fact", "{k:v}", func(v interface{}) interface{} { return m("k", v) })
	add("fact", "{k:v,j:v}", func(v interface{}) interface{} { return m("k", v, "j", v) })
	add("fact", "{?x:v}", func(v interface{}) interface{} { return m("?x", v) })
	add("fact", "{?:v}", func(v interface{}) interface{} { return m("?", v) })
	add("fact", "{'':v}", func(v interface{}) interface{} { return m("", v) })
	add("fact", "{!k:v}", func(v interface{}) interface{} { return m("!k", v) })
	add("fact", "{rule:v}", func(v interface{}) interface{} { return m("rule", v) })
	add("fact", "{rule:{when:v}}", func(v interface{}) interface{} { return m("rule", m("when", v, "action", A())) })
	add("fact", "{rule:{when:{pattern:v}}}", func(v interface{}) interface{} { return m("rule", m("when", m("pattern", v), "action", A())) })
	add("fact", "{rule:{condition:v}}", func(v interface{}) interface{} { return m("rule", m("when", P(), "condition", v, "action", A())) })
	add("fact", "{rule:{action:v}}", func(v interface{}) interface{} { return m("rule", m("when", P(), "action", v)) })
	add("fact", "{rule:{actions:v}}", func(v interface{}) interface{} { return m("rule", m("when", P(), "actions", v)) })
	add("fact", "{rule:{schedule:v}}", func(v interface{}) interface{} { return m("rule", m("schedule", v, "action", A())) })
	// two reserved positions at once: a `when` that the canary event matches AND a hole
	// elsewhere, so that anything a rejected input leaves behind in the rule index is
	// exercised by the canary traffic
	C := func() interface{} { return m("pattern", m("ev", "?c")) }
	add("fact", "{rule:{when:canary,schedule:v}}", func(v interface{}) interface{} { return m("rule", m("when", C(), "schedule", v, "action", A())) })
	add("fact", "{rule:{when:canary,action:v}}", func(v interface{}) interface{} { return m("rule", m("when", C(), "action", v)) })
	add("fact", "{rule:{when:canary,condition:v}}", func(v interface{}) interface{} { return m("rule", m("when", C(), "condition", v, "action", A())) })
	add("fact", "{rule:{when:canary},expires:v}", func(v interface{}) interface{} { return m("rule", m("when", C(), "action", A()), "expires", v) })
	// a valid schedule next to an expiry hole: the item expires while it is scheduled
	add("rule", "{schedule:ok,ttl:v}", func(v interface{}) interface{} { return m("schedule", "* * * * *", "ttl", v, "action", A()) })
	add("rule", "{schedule:ok,expires:v}", func(v interface{}) interface{} { return m("schedule", "* * * * *", "expires", v, "action", A()) })
	add("fact", "{rule:{schedule:ok},ttl:v}", func(v interface{}) interface{} { return m("rule", m("schedule", "* * * * *", "action", A()), "ttl", v) })
	add("rule", "{when:canary,schedule:v}", func(v interface{}) interface{} { return m("when", C(), "schedule", v, "action", A()) })
	add("rule", "{when:canary,expires:v}", func(v interface{}) interface{} { return m("when", C(), "action", A(), "expires", v) })
	add("fact", "{rule:{action:{code:v}}}", func(v interface{}) interface{} { return m("rule", m("when", P(), "action", m("code", v))) })
	add("fact", "{k,expires:v}", func(v interface{}) interface{} { return m("k", "x", "expires", v) })
	add("fact", "{k,ttl:v}", func(v interface{}) interface{} { return m("k", "x", "ttl", v) })
	add("fact", "{k,deleteWith:v}", func(v interface{}) interface{} { return m("k", "x", "deleteWith", v) })
	add("fact", "{k,id:v}", func(v interface{}) interface{} { return m("k", "x", "id", v) })
	add("fact", "{k,!props:v}", func(v interface{}) interface{} { return m("k", "x", "!props", v) })
	// rules
	add("rule", "v", func(v interface{}) interface{} { return v })
	add("rule", "{when:v}", func(v interface{}) interface{} { return m("when", v, "action", A()) })
	add("rule", "{when:{pattern:v}}", func(v interface{}) interface{} { return m("when", m("pattern", v), "action", A()) })
	add("rule", "{when:{pattern:{k:v}}}", func(v interface{}) interface{} { return m("when", m("pattern", m("k", v)), "action", A()) })
	add("rule", "{condition:v}", func(v interface{}) interface{} { return m("when", P(), "condition", v, "action", A()) })
	add("rule", "{condition:{pattern:v}}", func(v interface{}) interface{} {
		return m("when", P(), "condition", m("pattern", v), "action", A())
	})
	add("rule", "{condition:{and:v}}", func(v interface{}) interface{} { return m("when", P(), "condition", m("and", v), "action", A()) })
	add("rule", "{condition:{code:v}}", func(v interface{}) interface{} { return m("when", P(), "condition", m("code", v), "action", A()) })
	add("rule", "{action:v}", func(v interface{}) interface{} { return m("when", P(), "action", v) })
	add("rule", "{actions:v}", func(v interface{}) interface{} { return m("when", P(), "actions", v) })
	add("rule", "{action:{code:v}}", func(v interface{}) interface{} { return m("when", P(), "action", m("code", v)) })
	add("rule", "{action:{code,opts:v}}", func(v interface{}) interface{} { return m("when", P(), "action", m("code", "1", "opts", v)) })
	add("rule", "{action:{code,endpoint:v}}", func(v interface{}) interface{} {
		return m("when", P(), "action", m("code", "1", "endpoint", v))
	})
	add("rule", "{schedule:v}", func(v interface{}) interface{} { return m("schedule", v, "action", A()) })
	add("rule", "{expires:v}", func(v interface{}) interface{} { return m("when", P(), "action", A(), "expires", v) })
	add("rule", "{ttl:v}", func(v interface{}) interface{} { return m("when", P(), "action", A(), "ttl", v) })
	add("rule", "{deleteWith:v}", func(v interface{}) interface{} { return m("when", P(), "action", A(), "deleteWith", v) })
	add("rule", "{props:v}", func(v interface{}) interface{} { return m("when", P(), "action", A(), "props", v) })
	add("rule", "{once:v}", func(v interface{}) interface{} { return m("when", P(), "action", A(), "once", v) })
	add("rule", "{policies:v}", func(v interface{}) interface{} { return m("when", P(), "action", A(), "policies", v) })
	add("rule", "{id:v}", func(v interface{}) interface{} { return m("when", P(), "action", A(), "id", v) })
	// patterns
	add("pattern", "v", func(v interface{}) interface{} { return v })
	add("pattern", "{k:v}", func(v interface{}) interface{} { return m("k", v) })
	add("pattern", "{?x:v}", func(v interface{}) interface{} { return m("?x", v) })
	add("pattern", "{k:v,n:{m:v}}", func(v interface{}) interface{} { return m("k", v, "n", m("m", v)) })
	add("pattern", "{n:v}", func(v interface{}) interface{} { return m("n", v) })
	// queries
	add("query", "v", func(v interface{}) interface{} { return v })
	add("query", "{pattern:v}", func(v interface{}) interface{} { return m("pattern", v) })
	add("query", "{and:v}", func(v interface{}) interface{} { return m("and", v) })
	add("query", "{or:v}", func(v interface{}) interface{} { return m("or", v) })
	add("query", "{not:v}", func(v interface{}) interface{} { return m("not", v) })
	add("query", "{code:v}", func(v interface{}) interface{} { return m("code", v) })
	add("query", "{and:[{pattern:v}]}", func(v interface{}) interface{} { return m("and", []interface{}{m("pattern", v)}) })
	add("query", "{or:[v,{pattern}]}", func(v interface{}) interface{} { return m("or", []interface{}{v, m("pattern", m("k", "?x"))}) })
	add("query", "{pattern,locations:v}", func(v interface{}) interface{} { return m("pattern", m("k", "?x"), "locations", v) })
	add("query", "{pattern,location:v}", func(v interface{}) interface{} { return m("pattern", m("k", "?x"), "location", v) })
	add("query", "{code,libraries:v}", func(v interface{}) interface{} { return m("code", "1", "libraries", v) })
	add("query", "{or,shortCircuit:v}", func(v interface{}) interface{} {
		return m("or", []interface{}{m("pattern", m("k", "?x"))}, "shortCircuit", v)
	})
	// events
	add("event", "v", func(v interface{}) interface{} { return v })
	add("event", "{k:v}", func(v interface{}) interface{} { return m("k", v) })
	add("event", "{e:v}", func(v interface{}) interface{} { return m("e", v) })
	add("event", "{k:v,n:{m:v}}", func(v interface{}) interface{} { return m("k", v, "n", m("m", v)) })
	add("event", "{e,?x:v}", func(v interface{}) interface{} { return m("e", "1", "?x", v) })
	add("event", "{trigger!:v}", func(v interface{}) interface{} { return m("trigger!", v) })
	add("event", "{evaluate!:v}", func(v interface{}) interface{} { return m("evaluate!", v) })
	add("event", "{evaluate!:{when:v}}", func(v interface{}) interface{} { return m("evaluate!", m("when", v, "action", A())) })
	add("event", "{evaluate!:{action:v}}", func(v interface{}) interface{} { return m("evaluate!", m("when", P(), "action", v), "e", "1") })
	// whole requests (HTTP layer only)
	add("request", "body=v", func(v interface{}) interface{} { return v })
	add("request", "{location:v,fact}", func(v interface{}) interface{} { return m("location", v, "fact", m("k", "v")) })
	add("request", "{location,id:v,fact}", func(v interface{}) interface{} { return m("location", "L", "id", v, "fact", m("k", "v")) })
	add("request", "{location,pattern,inherited:v}", func(v interface{}) interface{} {
		return m("location", "L", "pattern", m("k", "?x"), "inherited", v)
	})
	add("request", "{uri:v}", func(v interface{}) interface{} { return m("uri", v, "location", "L", "fact", m("k", "v")) })
	add("request", "{location,id:v}", func(v interface{}) interface{} { return m("location", "L", "id", v) })
	add("request", "{location,event:v,extra:v}", func(v interface{}) interface{} { return m("location", "L", "event", v, "extra", v) })
	return sk
}

type c13case struct {
	Layer, Kind, Role, Skel, Val string
	mk                           func(v interface{}) interface{}
	v                            interface{}
}

// Doc builds the case's document (fresh copy).
func (c c13case) Doc() interface{} { return c.mk(lib.DeepCopy(c.v)) }

func (c c13case) group() string { return c.Layer + "/" + c.Kind + "/" + c.Role + "/" + c.Skel }

func (c c13case) String() string {
	return fmt.Sprintf("%s/%s %s %s with v=%s", c.Layer, c.Kind, c.Role, c.Skel, c.Val)
}

// c13Cases: the deterministic case list (supervisor and child must agree).
func c13Cases(tier string) []c13case {
	vals := c13Values(tier)
	var out []c13case
	for _, layer := range []string{"core", "sys", "http"} {
		for _, kind := range []string{"indexed", "linear"} {
			for _, sk := range c13Skeletons() {
				if sk.Role == "request" && layer != "http" {
					continue
				}
				for _, v := range vals {
					out = append(out, c13case{layer, kind, sk.Role, sk.Name, v.Name, sk.Make, v.V})
				}
			}
		}
	}
	return out
}

// ---- the three layers ---------------------------------------------------------

var errC13NA = fmt.Errorf("not applicable at this layer")

type c13api interface {
	// call performs one operation; args: id, fact, rule, pattern, query, event (documents)
	call(op string, args map[string]interface{}) (string, error)
}

type c13core struct {
	loc *core.Location
}

func asMap(x interface{}) (core.Map, bool) {
	m, ok := x.(map[string]interface{})
	return core.Map(m), ok
}

func (a *c13core) call(op string, args map[string]interface{}) (string, error) {
	ctx := lib.Ctx()
	id, _ := args["id"].(string)
	res := func(v interface{}, err error) (string, error) {
		if err != nil {
			return "", err
		}
		return lib.Canon(v), nil
	}
	switch op {
	case "facts/add":
		m, ok := asMap(args["fact"])
		if !ok {
			return "", errC13NA
		}
		return res(a.loc.AddFact(ctx, id, m))
	case "facts/rem":
		return res(a.loc.RemFact(ctx, id))
	case "facts/get":
		return res(a.loc.GetFact(ctx, id))
	case "facts/search":
		m, ok := asMap(args["pattern"])
		if !ok {
			return "", errC13NA
		}
		sr, err := a.loc.SearchFacts(ctx, m, true)
		if err != nil {
			return "", err
		}
		return fmt.Sprint(foundList(sr)), nil
	case "facts/query":
		js, _ := json.Marshal(args["query"])
		qr, err := a.loc.Query(ctx, string(js))
		if err != nil {
			return "", err
		}
		return fmt.Sprint(len(qr.Bss)), nil
	case "rules/add":
		m, ok := asMap(args["rule"])
		if !ok {
			return "", errC13NA
		}
		return res(a.loc.AddRule(ctx, id, m))
	case "rules/rem":
		return res(a.loc.RemRule(ctx, id))
	case "rules/list":
		return res(a.loc.ListRules(ctx, true))
	case "rules/search":
		m, ok := asMap(args["event"])
		if !ok {
			return "", errC13NA
		}
		rs, err := a.loc.SearchRules(ctx, m, true)
		if err != nil {
			return "", err
		}
		return fmt.Sprint(len(rs)), nil
	case "events/ingest":
		m, ok := asMap(args["event"])
		if !ok {
			return "", errC13NA
		}
		fr, cond := a.loc.ProcessEvent(ctx, m)
		if cond != nil {
			return "", cond
		}
		v, _ := frValues(fr)
		return fmt.Sprint(v), nil
	}
	return "", fmt.Errorf("unknown op %s", op)
}

type c13sys struct {
	sys *sys.System
}

func (a *c13sys) call(op string, args map[string]interface{}) (string, error) {
	ctx := lib.Ctx()
	id, _ := args["id"].(string)
	js := func(k string) string {
		b, _ := json.Marshal(args[k])
		return string(b)
	}
	switch op {
	case "facts/add":
		return a.sys.AddFact(ctx, "L", id, js("fact"))
	case "facts/rem":
		return a.sys.RemFact(ctx, "L", id)
	case "facts/get":
		return a.sys.GetFact(ctx, "L", id)
	case "facts/search":
		sr, err := a.sys.SearchFacts(ctx, "L", js("pattern"), true)
		if err != nil {
			return "", err
		}
		return fmt.Sprint(foundList(sr)), nil
	case "facts/query":
		qr, err := a.sys.Query(ctx, "L", js("query"))
		if err != nil {
			return "", err
		}
		return fmt.Sprint(len(qr.Bss)), nil
	case "rules/add":
		return a.sys.AddRule(ctx, "L", id, js("rule"))
	case "rules/rem":
		return a.sys.RemRule(ctx, "L", id)
	case "rules/list":
		rs, err := a.sys.ListRules(ctx, "L", true)
		return fmt.Sprint(rs), err
	case "rules/search":
		rs, err := a.sys.SearchRules(ctx, "L", js("event"), true)
		return fmt.Sprint(len(rs)), err
	case "events/ingest":
		fr, err := a.sys.ProcessEvent(ctx, "L", js("event"))
		if err != nil {
			return "", err
		}
		v, _ := frValues(fr)
		return fmt.Sprint(v), nil
	}
	return "", fmt.Errorf("unknown op %s", op)
}

type c13http struct {
	h *service.HTTPService
}

func (a *c13http) post(uri string, body []byte) (string, error) {
	req := httptest.NewRequest("POST", uri, bytes.NewReader(body))
	rec := httptest.NewRecorder()
	a.h.ServeHTTP(rec, req)
	if rec.Code != 200 {
		return "", fmt.Errorf("HTTP %d: %s", rec.Code, strings.TrimSpace(rec.Body.String()))
	}
	return strings.TrimSpace(rec.Body.String()), nil
}

func (a *c13http) call(op string, args map[string]interface{}) (string, error) {
	if op == "raw" {
		uri, _ := args["uri"].(string)
		var body []byte
		if b, ok := args["rawbody"].([]byte); ok {
			body = b
		} else {
			body, _ = json.Marshal(args["body"])
		}
		return a.post(uri, body)
	}
	body := map[string]interface{}{"location": "L"}
	for k, v := range args {
		body[k] = v
	}
	uri := "/api/loc/" + op
	if op == "rules/search" {
		return "", errC13NA
	}
	bs, _ := json.Marshal(body)
	out, err := a.post(uri, bs)
	if err != nil {
		return "", err
	}
	if op == "events/ingest" {
		// {"id":..,"result":FindRules}
		var r struct {
			Result *core.FindRules `json:"result"`
		}
		if json.Unmarshal([]byte(out), &r) == nil && r.Result != nil {
			v, _ := frValues(r.Result)
			return fmt.Sprint(v), nil
		}
	}
	return out, nil
}

func c13New(layer, kind string) c13api {
	ctx := lib.Ctx()
	switch layer {
	case "core":
		return &c13core{lib.MustLoc(ctx, kind, "L", lib.MemStore(ctx))}
	}
	conf := sys.SystemConfig{Storage: "memory", UnindexedState: kind == "linear"}
	cont := sys.SystemControl{LocationTTL: sys.Forever, DefaultLocControl: lib.QuietControl(), CachePending: true}
	cr := lib.NewRecCron(false)
	cr.ByLocation = true
	s, err := sys.NewSystem(ctx, conf, cont, cr)
	if err != nil {
		panic(err)
	}
	cr.Resolve = func(ctx *core.Context, name string) (*core.Location, error) { return s.GetLocation(ctx, name) }
	if layer == "sys" {
		return &c13sys{s}
	}
	h, err := service.NewHTTPService(ctx, &service.Service{System: s})
	if err != nil {
		panic(err)
	}
	return &c13http{h}
}

// ---- one case -------------------------------------------------------------------

type c13step struct {
	Op   string
	Args map[string]interface{}
}

func c13Steps(c c13case) []c13step {
	d := func() interface{} { return c.Doc() }
	a := func(kv ...interface{}) map[string]interface{} {
		m := map[string]interface{}{}
		for i := 0; i+1 < len(kv); i += 2 {
			m[kv[i].(string)] = kv[i+1]
		}
		return m
	}
	ev := func() interface{} { return map[string]interface{}{"e": "1"} }
	switch c.Role {
	case "fact":
		return []c13step{
			{"facts/add", a("fact", d())}, {"facts/add", a("id", "fx", "fact", d())}, {"facts/get", a("id", "fx")},
			{"facts/search", a("pattern", map[string]interface{}{"k": "?any"})}, {"facts/search", a("pattern", d())},
			{"events/ingest", a("event", ev())}, {"rules/search", a("event", ev())}, {"rules/list", a()},
			{"facts/query", a("query", map[string]interface{}{"pattern": map[string]interface{}{"k": "?q"}})},
			// multi-stage queries: the first stage binds ?x (and ?y) to whatever the stored
			// document holds under k (and j) - possibly a string that looks like the very
			// variable - and a later stage mentions the variable again
			{"facts/query", a("query", map[string]interface{}{"and": []interface{}{
				map[string]interface{}{"pattern": map[string]interface{}{"k": "?x"}},
				map[string]interface{}{"pattern": map[string]interface{}{"k": "?x"}}}})},
			{"facts/query", a("query", map[string]interface{}{"and": []interface{}{
				map[string]interface{}{"pattern": map[string]interface{}{"k": "?y", "j": "?x"}},
				map[string]interface{}{"pattern": map[string]interface{}{"j": "?y"}}}})},
			{"facts/rem", a("id", "fx")},
		}
	case "rule":
		return []c13step{
			{"rules/add", a("id", "rx", "rule", d())}, {"rules/add", a("rule", d())}, {"events/ingest", a("event", ev())},
			{"rules/search", a("event", ev())}, {"events/ingest", a("event", map[string]interface{}{"trigger!": "rx"})},
			{"rules/list", a()}, {"facts/get", a("id", "rx")}, {"rules/rem", a("id", "rx")},
		}
	case "pattern":
		return []c13step{{"facts/search", a("pattern", d())}, {"facts/search", a("pattern", d(), "inherited", true)}}
	case "query":
		return []c13step{
			{"facts/query", a("query", d())},
			{"rules/add", a("id", "rq", "rule", map[string]interface{}{"when": map[string]interface{}{"pattern": map[string]interface{}{"e": "?e"}}, "condition": d(), "action": map[string]interface{}{"code": "1"}})},
			{"events/ingest", a("event", ev())}, {"rules/rem", a("id", "rq")},
		}
	case "event":
		return []c13step{{"events/ingest", a("event", d())}, {"rules/search", a("event", d())}}
	case "request":
		var steps []c13step
		for _, uri := range []string{"/api/loc/facts/add", "/api/loc/facts/search", "/api/loc/events/ingest", "/api/loc/facts/get", "/api/json", "/loc/rules/list", "/v1.0/loc/facts/rem"} {
			steps = append(steps, c13step{"raw", a("uri", uri, "body", d())})
		}
		steps = append(steps, c13step{"raw", a("uri", "/api/loc/facts/add", "rawbody", []byte{})}, c13step{"raw", a("uri", "/api/json", "rawbody", []byte{})})
		return steps
	}
	return nil
}

var c13Setup = []c13step{
	{"facts/add", map[string]interface{}{"id": "p1", "fact": map[string]interface{}{"k": "v"}}},
	{"facts/add", map[string]interface{}{"id": "p2", "fact": map[string]interface{}{"k": []interface{}{"a", "b"}, "n": map[string]interface{}{"m": "v"}}}},
	{"rules/add", map[string]interface{}{"id": "r1", "rule": map[string]interface{}{"when": map[string]interface{}{"pattern": map[string]interface{}{"e": "?e"}}, "action": map[string]interface{}{"code": "'r1'"}}}},
	{"rules/add", map[string]interface{}{"id": "r2", "rule": map[string]interface{}{"when": map[string]interface{}{"pattern": map[string]interface{}{"k": "?x", "n": map[string]interface{}{"m": "?y"}}},
		"condition": map[string]interface{}{"pattern": map[string]interface{}{"k": "?z"}}, "action": map[string]interface{}{"code": "'r2'"}}}},
	{"rules/add", map[string]interface{}{"id": "r3", "rule": map[string]interface{}{"when": map[string]interface{}{"pattern": map[string]interface{}{"k": "?x", "n": map[string]interface{}{"m": "?x"}}},
		"action": map[string]interface{}{"code": "'r3'"}}}},
	{"rules/add", map[string]interface{}{"id": "canary-rule", "rule": map[string]interface{}{"when": map[string]interface{}{"pattern": map[string]interface{}{"ev": "canary"}}, "action": map[string]interface{}{"code": "'canary-fired'"}}}},
}

type c13outcome struct {
	out   string
	err   error
	panic string
	site  string
	hang  bool
}

var c13Watchdog = 15 * time.Second

// c13Clk is the child's virtual clock (frozen unless a case advances it).
var c13Clk interface {
	Set(time.Time)
	Advance(time.Duration)
}

// guarded runs f with recover and a watchdog.
func c13Guarded(f func() (string, error)) c13outcome {
	ch := make(chan c13outcome, 1)
	go func() {
		var o c13outcome
		defer func() {
			if r := recover(); r != nil {
				o.panic = fmt.Sprint(r)
				o.site = c13Site(string(debug.Stack()))
			}
			ch <- o
		}()
		o.out, o.err = f()
	}()
	select {
	case o := <-ch:
		return o
	case <-time.After(c13Watchdog):
		return c13outcome{hang: true}
	}
}

var c13FrameRe = regexp.MustCompile(`(?m)^(github\.com/Comcast/rulio/[^\s(]+(?:\([^)]*\))?[^\s(]*)\(`)

// c13Site: the innermost rulio function on the panicking stack (not the harness, not verifrt).
func c13Site(stack string) string {
	for _, m := range c13FrameRe.FindAllStringSubmatch(stack, -1) {
		f := strings.TrimPrefix(m[1], "github.com/Comcast/rulio/")
		if strings.HasPrefix(f, "verifrt/") {
			continue
		}
		// drop closure suffixes (.func1.2)
		f = regexp.MustCompile(`\.func[0-9.]+$`).ReplaceAllString(f, "")
		return f
	}
	return "unknown"
}

type c13viol struct {
	Sig, Sum string
}

type c13result struct {
	Idx      int       `json:"idx"`
	Viols    []c13viol `json:"viols,omitempty"`
	Hang     bool      `json:"hang,omitempty"`
	Accepted int       `json:"accepted"`
	Rejected int       `json:"rejected"`
	Calls    int       `json:"calls"`
}

func c13RunCase(idx int, c c13case) (res c13result) {
	res.Idx = idx
	pre := fmt.Sprintf("C13/%s/%s/", c.Layer, c.Kind)
	if c13Clk != nil {
		c13Clk.Set(lib.T0)
	}
	api := c13New(c.Layer, c.Kind)
	for _, st := range c13Setup {
		if _, err := api.call(st.Op, lib.DeepCopy(st.Args).(map[string]interface{})); err != nil {
			panic(fmt.Sprintf("setup %s failed: %v", st.Op, err))
		}
	}
	add := func(class, where, detail string) {
		res.Viols = append(res.Viols, c13viol{pre + class + ":" + c.Role + " " + c.Skel + ":" + where, fmt.Sprintf("%s: %s", c, detail)})
	}
	for _, st := range c13Steps(c) {
		st := st
		o := c13Guarded(func() (string, error) { return api.call(st.Op, st.Args) })
		res.Calls++
		switch {
		case o.hang:
			res.Hang = true
			add("hang", st.Op, fmt.Sprintf("%s did not return within %v", st.Op, c13Watchdog))
			return res
		case o.panic != "":
			add("panic", st.Op+"@"+o.site, fmt.Sprintf("%s panicked in %s: %s", st.Op, o.site, firstLine13(o.panic)))
		case o.err == errC13NA:
			res.Calls--
		case o.err != nil:
			res.Rejected++
		default:
			res.Accepted++
		}
	}
	// canary traffic on the same location
	canaries := []struct {
		st   c13step
		want string
	}{
		{c13step{"facts/add", map[string]interface{}{"id": "canary", "fact": map[string]interface{}{"canary": "yes"}}}, ""},
		{c13step{"facts/search", map[string]interface{}{"pattern": map[string]interface{}{"canary": "?c"}}}, "canary"},
		{c13step{"facts/get", map[string]interface{}{"id": "p1"}}, `"k":"v"`},
		{c13step{"events/ingest", map[string]interface{}{"event": map[string]interface{}{"ev": "canary"}}}, "canary-fired"},
		{c13step{"facts/query", map[string]interface{}{"query": map[string]interface{}{"pattern": map[string]interface{}{"canary": "?c"}}}}, ""},
		{c13step{"facts/rem", map[string]interface{}{"id": "canary"}}, ""},
		{c13step{"rules/list", map[string]interface{}{}}, "canary-rule"},
	}
	for round := 0; round < 2; round++ {
		when := "after the input"
		tag := ""
		if round == 1 {
			// ten virtual seconds later: whatever the input made expire has expired
			if c13Clk == nil || !(strings.Contains(c.Skel, "ttl") || strings.Contains(c.Skel, "expires")) {
				break
			}
			c13Clk.Advance(10 * time.Second)
			when = "ten seconds after the input"
			tag = "-later"
		}
		for _, cn := range canaries {
			cn := cn
			o := c13Guarded(func() (string, error) { return api.call(cn.st.Op, lib.DeepCopy(cn.st.Args).(map[string]interface{})) })
			res.Calls++
			switch {
			case o.hang:
				res.Hang = true
				add("location-hangs-after-input"+tag, cn.st.Op, fmt.Sprintf("%s, canary %s did not return within %v", when, cn.st.Op, c13Watchdog))
				return res
			case o.panic != "":
				add("location-panics-after-input"+tag, cn.st.Op+"@"+o.site, fmt.Sprintf("%s, canary %s panicked in %s: %s", when, cn.st.Op, o.site, firstLine13(o.panic)))
			case o.err != nil:
				add("location-fails-after-input"+tag, cn.st.Op, fmt.Sprintf("%s, canary %s failed: %v", when, cn.st.Op, o.err))
			case cn.want != "" && !strings.Contains(o.out, cn.want):
				add("location-answers-wrongly-after-input"+tag, cn.st.Op, fmt.Sprintf("%s, canary %s returned %s (expected to contain %s)", when, cn.st.Op, trunc13(o.out), cn.want))
			}
		}
	}
	return res
}

func firstLine13(s string) string {
	if i := strings.IndexByte(s, '\n'); i >= 0 {
		s = s[:i]
	}
	return trunc13(s)
}

func trunc13(s string) string {
	if len(s) > 300 {
		return s[:300] + "..."
	}
	return s
}

// ---- child process -----------------------------------------------------------------

func init() {
	spec := os.Getenv("VERIF_C13_CHILD")
	if spec == "" {
		return
	}
	// spec: tier,shard,nshards,start,single(0/1),watchdogSeconds
	f := strings.Split(spec, ",")
	tier := f[0]
	shard, _ := strconv.Atoi(f[1])
	nshards, _ := strconv.Atoi(f[2])
	start, _ := strconv.Atoi(f[3])
	single := f[4] == "1"
	if wd, _ := strconv.Atoi(f[5]); wd > 0 {
		c13Watchdog = time.Duration(wd) * time.Second
	}
	debug.SetMaxStack(16 << 20)
	debug.SetGCPercent(50)
	c13Clk = lib.Clock()
	go func() { // memory guard: a runaway allocation ends this child, not the sandbox
		for {
			time.Sleep(200 * time.Millisecond)
			var ms runtime.MemStats
			runtime.ReadMemStats(&ms)
			if ms.Sys > 6<<30 {
				fmt.Fprintln(os.Stderr, "C13-CHILD: memory guard tripped")
				os.Exit(8)
			}
		}
	}()
	cases := c13Cases(tier)
	skip := map[string]bool{}
	for _, k := range strings.Split(os.Getenv("VERIF_C13_SKIP"), "\x1f") {
		if k != "" {
			skip[k] = true
		}
	}
	w := bufio.NewWriter(os.Stdout)
	for i := start; i < len(cases); i++ {
		if i%nshards != shard {
			continue
		}
		if skip[cases[i].group()] {
			fmt.Fprintf(w, "S %d\n", i)
			continue
		}
		fmt.Fprintf(w, "J %d\n", i)
		w.Flush()
		res := c13RunCase(i, cases[i])
		b, _ := json.Marshal(res)
		fmt.Fprintf(w, "R %s\n", b)
		w.Flush()
		if res.Hang {
			os.Exit(7) // the stuck goroutine may hold locks: start over in a new process
		}
		if single {
			break
		}
	}
	w.Flush()
	os.Exit(0)
}

// ---- supervisor --------------------------------------------------------------------

type c13childRun struct {
	skipped  int
	results  []c13result
	journal  int // last journaled case without a result (-1 if none)
	exit     int
	stderr   string
	finished bool
}

var c13SkipGroups []string

func c13Spawn(tier string, shard, nshards, start int, single bool, watchdog int) c13childRun {
	cmd := exec.Command(os.Args[0])
	s := "0"
	if single {
		s = "1"
	}
	cmd.Env = append(os.Environ(), fmt.Sprintf("VERIF_C13_CHILD=%s,%d,%d,%d,%s,%d", tier, shard, nshards, start, s, watchdog))
	if !single {
		cmd.Env = append(cmd.Env, "VERIF_C13_SKIP="+strings.Join(c13SkipGroups, "\x1f"))
	}
	var eb bytes.Buffer
	cmd.Stderr = &eb
	out, err := cmd.StdoutPipe()
	if err != nil {
		panic(err)
	}
	if err := cmd.Start(); err != nil {
		fmt.Fprintln(os.Stderr, "TOOLING-ERROR: cannot start C13 child:", err)
		os.Exit(3)
	}
	run := c13childRun{journal: -1}
	sc := bufio.NewScanner(out)
	sc.Buffer(make([]byte, 1<<20), 1<<26)
	for sc.Scan() {
		line := sc.Text()
		switch {
		case strings.HasPrefix(line, "S "):
			run.skipped++
		case strings.HasPrefix(line, "J "):
			run.journal, _ = strconv.Atoi(line[2:])
		case strings.HasPrefix(line, "R "):
			var r c13result
			if json.Unmarshal([]byte(line[2:]), &r) == nil {
				run.results = append(run.results, r)
				if r.Idx == run.journal {
					run.journal = -1
				}
			}
		}
	}
	err = cmd.Wait()
	run.stderr = eb.String()
	if err == nil {
		run.finished = true
	} else if ee, ok := err.(*exec.ExitError); ok {
		run.exit = ee.ExitCode()
	} else {
		run.exit = -1
	}
	return run
}

func c13CrashClass(stderr string) string {
	switch {
	case strings.Contains(stderr, "stack overflow") || strings.Contains(stderr, "goroutine stack exceeds"):
		return "stack-overflow"
	case strings.Contains(stderr, "memory guard tripped") || strings.Contains(stderr, "out of memory"):
		return "memory-blowup"
	case strings.Contains(stderr, "concurrent map"):
		return "concurrent-map-access"
	case strings.Contains(stderr, "all goroutines are asleep"):
		return "deadlock"
	case strings.Contains(stderr, "panic:"):
		return "unrecovered-panic"
	}
	return "process-died"
}

func c13CrashSite(stderr string) string {
	// the first rulio frame after the fatal message
	return c13Site(stderr)
}

func c13Supervise(w *lib.Worker) {
	cases := c13Cases(w.Tier)
	report := func(c c13case, idx int, v c13viol) {
		w.Violation(lib.Violation{Scenario: "C13", Signature: v.Sig, Summary: v.Sum, Replay: map[string]interface{}{"c13_case": idx, "case": c.String(), "tier": w.Tier}})
	}
	confirmed := map[string]bool{} // signatures already confirmed by a re-run alone
	hangs := map[string]int{}      // confirmed hangs per (layer, state, role, skeleton)
	noteHang := func(c c13case) {
		hangs[c.group()]++
		if hangs[c.group()] == 3 {
			// every hang costs a whole watchdog period: after three of one kind the rest of
			// that skeleton is skipped (and the run is reported as not exhaustive)
			c13SkipGroups = append(c13SkipGroups, c.group())
			w.Cap("skeleton " + c.group() + ": skipped after 3 hangs")
			w.SetExhaustive(false)
		}
	}
	start := 0
	for start < len(cases) {
		if w.TimeUp() {
			w.Cap(fmt.Sprintf("time budget reached at case %d of %d (this shard's remaining cases were not run)", start, len(cases)))
			w.SetExhaustive(false)
			return
		}
		run := c13Spawn(w.Tier, w.Shard, w.NShards, start, false, 0)
		for _, r := range run.results {
			c13Account(w, cases[r.Idx], r, report)
		}
		w.Count("cases-skipped-after-repeated-hangs", int64(run.skipped))
		if run.finished {
			return
		}
		j := run.journal
		if j < 0 {
			// died between cases, or a hang (the hang's result was written): find where to go on
			if len(run.results) > 0 && run.results[len(run.results)-1].Hang {
				last := run.results[len(run.results)-1]
				hsig := ""
				for _, v := range last.Viols {
					hsig = v.Sig
				}
				if confirmed[hsig] {
					for _, v := range last.Viols {
						report(cases[last.Idx], last.Idx, v)
					}
					noteHang(cases[last.Idx])
					start = last.Idx + 1
					continue
				}
				// confirm alone with a long watchdog (once per signature)
				again := c13Spawn(w.Tier, w.Shard, w.NShards, last.Idx, true, 60)
				isHang := false
				for _, r := range again.results {
					if r.Hang {
						isHang = true
					}
				}
				confirmed[hsig] = isHang
				if !isHang && again.finished {
					w.Count("hang-not-confirmed-on-rerun", 1)
					// drop the unconfirmed hang violations: re-account the rerun's result instead
					for _, r := range again.results {
						c13Account(w, cases[r.Idx], r, report)
					}
				} else {
					for _, v := range last.Viols {
						report(cases[last.Idx], last.Idx, v)
					}
					noteHang(cases[last.Idx])
				}
				start = last.Idx + 1
				continue
			}
			fmt.Fprintf(os.Stderr, "TOOLING-ERROR: C13 child died (exit %d) outside any case:\n%s\n", run.exit, trunc13(run.stderr))
			os.Exit(3)
		}
		// the child died inside case j: confirm by running it alone (once per signature)
		c := cases[j]
		pre := fmt.Sprintf("C13/%s/%s/", c.Layer, c.Kind)
		if sig := pre + "process-killed:" + c13CrashClass(run.stderr) + "@" + c13CrashSite(run.stderr) + ":" + c.Role; confirmed[sig] {
			report(c, j, c13viol{sig, fmt.Sprintf("%s: the process died (%s)", c, c13CrashClass(run.stderr))})
			w.Eval(1)
			start = j + 1
			continue
		}
		again := c13Spawn(w.Tier, w.Shard, w.NShards, j, true, 0)
		if again.finished {
			w.Count("crash-not-confirmed-on-rerun", 1)
			for _, r := range again.results {
				c13Account(w, cases[r.Idx], r, report)
			}
		} else {
			class := c13CrashClass(again.stderr)
			site := c13CrashSite(again.stderr)
			sig := pre + "process-killed:" + class + "@" + site + ":" + c.Role
			confirmed[sig] = true
			report(c, j, c13viol{sig, fmt.Sprintf("%s: the process died (%s in %s): %s", c, class, site, firstLine13(strings.TrimSpace(again.stderr)))})
			w.Eval(1)
		}
		start = j + 1
	}
}

func c13Account(w *lib.Worker, c c13case, r c13result, report func(c13case, int, c13viol)) {
	w.Eval(int64(r.Calls))
	w.AddTraces(1)
	w.AddStates(1)             // one explored case = one (input, role, layer, state) point of the input space
	w.AddTrans(int64(r.Calls)) // guarded calls executed on the real code
	if r.Idx%4999 == 0 {
		w.Sample(map[string]interface{}{"case": c.String(), "calls": r.Calls, "accepted": r.Accepted, "rejected": r.Rejected})
	}
	w.Count("calls-accepted", int64(r.Accepted))
	w.Count("calls-rejected", int64(r.Rejected))
	if r.Hang {
		return // reported after confirmation
	}
	if r.Accepted > 0 {
		w.Nontrivial(c.Layer + "|" + c.Kind + "|" + c.Role + "|" + c.Skel + "|" + c.Val)
	}
	for _, v := range r.Viols {
		report(c, r.Idx, v)
	}
}

func init() {
	lib.Register(&lib.Check{
		ID:    "C13",
		Level: "model_checking",
		Rule: "bounded-exhaustive input enumeration: (skeleton x value) documents - a hole at each reserved position (rule/when/pattern/condition/action(s)/code/schedule/expires/ttl/deleteWith/id/!props/and/or/not/trigger!/evaluate!/location(s)/inherited/uri/variable-looking keys) filled with every JSON value of the pool (7 leaves, all containers of them to nesting 2 (3 thorough) incl. empty and heterogeneous, variable-looking keys, 100- and 3000-deep nests) - in the roles fact, rule, pattern, query, event and whole HTTP request body, at the layers core.Location, sys.System (+cron hooks), service.HTTPService.ServeHTTP, both states; each on a fresh pre-populated location followed by 7 canary operations; child-process isolation with journal, recover, watchdog (hang and crash re-run alone to confirm); " +
			"states = traces = cases (input x role x layer x state), transitions = evaluations = guarded calls on the real code, non-trivial = cases in which at least one call accepted the input",
		Assumptions: []string{
			"a call that does not return within 15 s (60 s when re-run alone) on an otherwise idle child is a hang; every call in this language normally takes well under a millisecond",
			"the virtual clock is frozen: JavaScript watchdogs never fire, so no script in the language loops",
		},
		Budget: func(tier string) time.Duration {
			if tier == "thorough" {
				return 40 * time.Minute
			}
			return 6 * time.Minute
		},
		Run: c13Supervise,
		ReplayFn: func(w *lib.Worker, raw json.RawMessage) {
			var rp struct {
				Idx  int    `json:"c13_case"`
				Tier string `json:"tier"`
			}
			json.Unmarshal(raw, &rp)
			if rp.Tier == "" {
				rp.Tier = "quick"
			}
			cases := c13Cases(rp.Tier)
			if rp.Idx < 0 || rp.Idx >= len(cases) {
				fmt.Fprintln(os.Stderr, "bad replay index")
				os.Exit(3)
			}
			run := c13Spawn(rp.Tier, 0, 1, rp.Idx, true, 60)
			c := cases[rp.Idx]
			report := func(c c13case, idx int, v c13viol) {
				w.Violation(lib.Violation{Scenario: "C13", Signature: v.Sig, Summary: v.Sum, Replay: raw})
			}
			for _, r := range run.results {
				for _, v := range r.Viols {
					report(c, r.Idx, v)
				}
			}
			if !run.finished && run.journal >= 0 {
				pre := fmt.Sprintf("C13/%s/%s/", c.Layer, c.Kind)
				report(c, rp.Idx, c13viol{pre + "process-killed:" + c13CrashClass(run.stderr) + "@" + c13CrashSite(run.stderr) + ":" + c.Role, c.String() + ": the process died"})
			}
		},
	})
}
