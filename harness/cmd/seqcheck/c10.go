package main

// C10 — rule lifecycle: only live, enabled rules fire.
//
// Engine SEQ.  Alphabet over rule ids {r1,r2} and two rule versions whose
// action returns its version: AddRule(id,v1|v2|v1-expiring), RemRule,
// EnableRule(id,false|true), Reload (new location over the same storage),
// location disable/enable (property `enabled`), clock past the expiry,
// ProcessEvent (plain and `trigger!` by id).  Configurations {indexed,linear}
// x {rules local, rules in a parent and toggled in the child}.  Oracle: the
// lifecycle automaton of the statement; in every reached state the event, one
// `trigger!` event per id, RuleEnabled and ListRules are compared, and in
// every DISABLED state the whole public Location API must report the disabled
// error and leave the privileged snapshot untouched.

import (
	"encoding/json"
	"fmt"
	"sort"
	"strings"
	"time"

	"github.com/Comcast/rulio/core"
	"verifharness/lib"
)

type c10op struct {
	Kind string // add addexp rem enable disable reload locoff locon expire event trigger
	Id   string
	Ver  string
}

func (o c10op) String() string {
	switch o.Kind {
	case "add":
		return fmt.Sprintf("AddRule(%s,%s)", o.Id, o.Ver)
	case "addexp":
		return fmt.Sprintf("AddRule(%s,v1,expires=T0+2s)", o.Id)
	case "rem!0", "rem!1":
		return fmt.Sprintf("RemRule(%s) with storage call #%s of it failing", o.Id, o.Kind[4:])
	case "rem":
		return fmt.Sprintf("RemRule(%s)", o.Id)
	case "enable":
		return fmt.Sprintf("EnableRule(%s,true)", o.Id)
	case "disable":
		return fmt.Sprintf("EnableRule(%s,false)", o.Id)
	case "reload":
		return "Reload"
	case "locoff":
		return "SetProp(enabled=false)"
	case "locon":
		return "RemProp(enabled)"
	case "expire":
		return "clock:=T0+3s"
	case "event":
		return "ProcessEvent({e:1})"
	case "trigger":
		return fmt.Sprintf("ProcessEvent({trigger!:%s,e:1})", o.Id)
	}
	return "?"
}

func c10Ops(ids []string) []c10op {
	ops := []c10op{{"event", "", ""}}
	for _, id := range ids {
		ops = append(ops, c10op{"trigger", id, ""})
	}
	for _, id := range ids {
		ops = append(ops, c10op{"add", id, "v1"}, c10op{"add", id, "v2"}, c10op{"addexp", id, "v1"},
			c10op{"rem", id, ""}, c10op{"disable", id, ""}, c10op{"enable", id, ""})
	}
	// RemRule while the storage refuses its first / second mutating call
	for _, id := range ids[:1] {
		ops = append(ops, c10op{"rem!0", id, ""}, c10op{"rem!1", id, ""})
	}
	ops = append(ops, c10op{"reload", "", ""}, c10op{"locoff", "", ""}, c10op{"locon", "", ""}, c10op{"expire", "", ""})
	return ops
}

type c10rule struct {
	ver     string
	expires bool
}

type c10inst struct {
	kind   string
	parent bool
	ops    []c10op
	ids    []string
	w      *lib.Worker
	clock  interface {
		Now() time.Time
		Set(time.Time)
	}
	ctx    *core.Context
	store  *core.MemStorage
	rec    *lib.RecStore  // what the locations write through (fault injection)
	loc    *core.Location // the location events are sent to
	home   *core.Location // where rules live (== loc, or the parent)
	rules  map[string]*c10rule
	dis    map[string]bool // disabled at loc
	unk    map[string]bool // flag state unspecified (see DESIGN)
	locOff bool
}

func (in *c10inst) Close() {}

func (in *c10inst) cfg() string {
	if in.parent {
		return in.kind + "+parent"
	}
	return in.kind
}

func (in *c10inst) open() {
	if in.rec == nil {
		in.rec = lib.NewRecStore(in.store)
	}
	in.loc = lib.MustLoc(in.ctx, in.kind, "L", in.rec)
	in.home = in.loc
	if in.parent {
		in.home = lib.MustLoc(in.ctx, in.kind, "P", in.rec)
		prov := core.NewSimpleLocationProvider(map[string]*core.Location{"L": in.loc, "P": in.home})
		in.loc.Provider, in.home.Provider = prov, prov
	}
}

func (in *c10inst) Key() string {
	var sb strings.Builder
	for _, id := range in.ids {
		if r := in.rules[id]; r != nil {
			fmt.Fprintf(&sb, "%s=%s/%v;", id, r.ver, r.expires)
		}
	}
	sb.WriteString(lib.Canon(in.dis) + lib.Canon(in.unk) + fmt.Sprint(in.locOff, in.clock.Now().Unix()))
	sb.WriteString(core.VerifKeyJSON(in.loc.VerifState()))
	sb.WriteString(lib.Canon(lib.Pairs(in.ctx, in.store, "L")))
	if in.parent {
		sb.WriteString(core.VerifKeyJSON(in.home.VerifState()))
		sb.WriteString(lib.Canon(lib.Pairs(in.ctx, in.store, "P")))
	}
	return sb.String()
}

func c10RuleMap(ver string, expiring bool) map[string]interface{} {
	// the two versions name the event variable differently: the same events match,
	// the pattern index files both under one node, the JSON differs
	v := "?e"
	if ver == "v2" {
		v = "?ev"
	}
	r := map[string]interface{}{
		"when":   map[string]interface{}{"pattern": map[string]interface{}{"e": v}},
		"action": map[string]interface{}{"code": "'" + ver + "'"},
	}
	if expiring {
		r["expires"] = float64(lib.T0.Add(2 * time.Second).Unix())
	}
	return r
}

func (in *c10inst) liveRule(id string) *c10rule {
	r := in.rules[id]
	if r == nil {
		return nil
	}
	if r.expires && in.clock.Now().Unix() >= lib.T0.Add(2*time.Second).Unix() {
		return nil
	}
	return r
}

// expected firing versions for a plain event; ok=false when unspecified
func (in *c10inst) expectFire(only string) (vals []string, ok bool) {
	if in.locOff {
		return nil, true
	}
	for _, id := range in.ids {
		if only != "" && id != only {
			continue
		}
		r := in.liveRule(id)
		if r == nil {
			continue
		}
		if in.unk[id] {
			return nil, false
		}
		if in.dis[id] {
			continue
		}
		vals = append(vals, r.ver)
	}
	sort.Strings(vals)
	return vals, true
}

func isDisabledErr(err error) bool {
	return err != nil && strings.Contains(err.Error(), "disabled")
}

func (in *c10inst) checkEvent(trigger string) *lib.Violation {
	ev := core.Map{"e": "1"}
	name := "ProcessEvent({e:1})"
	if trigger != "" {
		ev["trigger!"] = trigger
		name = fmt.Sprintf("ProcessEvent({trigger!:%s,e:1})", trigger)
	}
	want, specified := in.expectFire(trigger)
	fr, cond := in.loc.ProcessEvent(in.ctx, ev)
	if !specified {
		return nil
	}
	var got []string
	if fr != nil {
		for _, v := range fr.Values {
			got = append(got, fmt.Sprint(v))
		}
	}
	sort.Strings(got)
	if in.locOff {
		if len(got) > 0 {
			return viol("C10/"+in.kind+"/rule-fires-in-disabled-location", fmt.Sprintf("[%s] %s in a disabled location produced action values %v", in.cfg(), name, got), "none", got)
		}
		return nil
	}
	if trigger != "" && in.liveRule(trigger) == nil {
		// triggering an id that holds no live rule: no value may be produced; the
		// error/disposition is unspecified
		if len(got) > 0 {
			return viol("C10/"+in.kind+"/dead-rule-fires-by-trigger", fmt.Sprintf("[%s] %s produced %v although the id holds no live rule", in.cfg(), name, got), "none", got)
		}
		return nil
	}
	if trigger != "" && in.parent {
		// `trigger!` addresses a rule by id in the location the event is sent to; an
		// inherited rule is not reachable that way (not part of the statement).  Only
		// the negative half applies: a suppressed rule must not fire.
		miss, extra := diffSets(want, got)
		_ = miss
		if len(extra) == 0 {
			return nil
		}
	}
	if strings.Join(got, ",") != strings.Join(want, ",") {
		sig := "C10/" + in.kind + "/"
		missing, extra := diffSets(want, got)
		switch {
		case len(extra) > 0 && trigger != "":
			sig += "suppressed-or-dead-rule-fires-by-trigger"
		case len(extra) > 0:
			sig += "suppressed-or-dead-rule-fires"
		case len(missing) > 0:
			sig += "live-enabled-rule-does-not-fire"
		default:
			sig += "wrong-values"
		}
		return viol(sig, fmt.Sprintf("[%s] %s produced action values %v, lifecycle says %v (cond=%v; rules=%s disabled=%v)", in.cfg(), name, got, want, cond, in.describe(), lib.SortedKeys(in.dis)), want, got)
	}
	if len(want) > 0 {
		in.w.Nontrivial(in.cfg() + "|" + name + "|" + in.describe() + "|" + strings.Join(want, ","))
	}
	return nil
}

func (in *c10inst) describe() string {
	var xs []string
	for _, id := range in.ids {
		if r := in.liveRule(id); r != nil {
			xs = append(xs, id+"="+r.ver)
		}
	}
	return strings.Join(xs, ",")
}

func (in *c10inst) Apply(opi int) *lib.Violation {
	op := in.ops[opi]
	mustOK := func(err error) *lib.Violation {
		if in.locOff && in.home == in.loc {
			if !isDisabledErr(err) {
				return fviol("C10/"+in.kind+"/operation-not-refused-in-disabled-location", fmt.Sprintf("[%s] %s in a disabled location returned %v", in.cfg(), op, err), "Location is disabled.", fmt.Sprint(err))
			}
			return nil
		}
		if err != nil {
			return fviol("C10/"+in.kind+"/operation-failed", fmt.Sprintf("[%s] %s failed: %v", in.cfg(), op, err), "ok", err.Error())
		}
		return nil
	}
	homeOff := in.locOff && in.home == in.loc
	switch op.Kind {
	case "event":
		return in.checkEvent("")
	case "trigger":
		return in.checkEvent(op.Id)
	case "add", "addexp":
		_, err := in.home.AddRule(in.ctx, op.Id, core.Map(c10RuleMap(op.Ver, op.Kind == "addexp")))
		if op.Kind == "addexp" && in.clock.Now().Unix() >= lib.T0.Add(2*time.Second).Unix() {
			// already expired: must be refused (C07); nothing changes
			if err == nil {
				return fviol("C10/"+in.kind+"/expired-rule-accepted", fmt.Sprintf("[%s] %s accepted after its expiry", in.cfg(), op), "error", "ok")
			}
			return nil
		}
		if v := mustOK(err); v != nil {
			return v
		}
		if !homeOff {
			if old := in.rules[op.Id]; old != nil && in.liveRule(op.Id) == nil && in.home == in.loc {
				// the id held a rule that has expired: it is gone, and its flag with it;
				// this is a fresh rule, not an overwrite
				delete(in.dis, op.Id)
				delete(in.unk, op.Id)
			}
			in.rules[op.Id] = &c10rule{ver: op.Ver, expires: op.Kind == "addexp"}
		}
	case "rem!0", "rem!1":
		if homeOff || in.liveRule(op.Id) == nil {
			return &lib.Violation{Signature: "prune", Prune: true}
		}
		in.rec.FailAt = in.rec.Mutations() + int(op.Kind[4]-'0')
		_, err := in.home.RemRule(in.ctx, op.Id)
		in.rec.FailAt = -1
		_, gerr := in.home.GetRule(in.ctx, op.Id)
		switch {
		case err == nil || gerr != nil:
			// acknowledged, or failed with the rule gone: the rule no longer exists; what
			// became of its flag after a FAILED removal is left unspecified until the next toggle
			delete(in.rules, op.Id)
			if err != nil && (in.dis[op.Id] || in.home != in.loc) {
				in.unk[op.Id] = true
			} else if in.home == in.loc {
				delete(in.dis, op.Id)
				delete(in.unk, op.Id)
			} else if in.dis[op.Id] {
				in.unk[op.Id] = true
			}
		default:
			// failed and the rule is still there: it is the same rule as before, with the
			// same flag - a removal that did not happen must not re-enable it
		}
	case "rem":
		_, err := in.home.RemRule(in.ctx, op.Id)
		if in.rules[op.Id] != nil || homeOff {
			if v := mustOK(err); v != nil {
				return v
			}
		}
		if !homeOff {
			delete(in.rules, op.Id)
			if in.home == in.loc {
				delete(in.dis, op.Id)
				delete(in.unk, op.Id)
			} else if in.dis[op.Id] {
				in.unk[op.Id] = true // flag lives in the child; what it means for a re-added parent rule is unspecified
			}
		}
	case "enable", "disable":
		if in.liveRule(op.Id) == nil && !in.locOff {
			// toggling an id that holds no live rule (it expired): what that means for a
			// rule added later is not specified (the path filter only knows removals)
			return &lib.Violation{Signature: "prune", Prune: true}
		}
		err := in.loc.EnableRule(in.ctx, op.Id, op.Kind == "enable")
		if in.locOff {
			if !isDisabledErr(err) {
				return fviol("C10/"+in.kind+"/operation-not-refused-in-disabled-location", fmt.Sprintf("[%s] %s in a disabled location returned %v", in.cfg(), op, err), "Location is disabled.", fmt.Sprint(err))
			}
			return nil
		}
		if err != nil {
			return fviol("C10/"+in.kind+"/operation-failed", fmt.Sprintf("[%s] %s failed: %v", in.cfg(), op, err), "ok", err.Error())
		}
		delete(in.unk, op.Id)
		if op.Kind == "disable" {
			in.dis[op.Id] = true
		} else {
			delete(in.dis, op.Id)
		}
	case "reload":
		in.open()
	case "locoff":
		if err := in.loc.SetProp(in.ctx, "", "enabled", "false"); err != nil {
			return fviol("C10/"+in.kind+"/setprop-failed", err.Error(), nil, nil)
		}
		in.locOff = true
	case "locon":
		if err := in.loc.RemProp(in.ctx, "", "enabled"); err != nil {
			return fviol("C10/"+in.kind+"/remprop-failed", err.Error(), nil, nil)
		}
		in.locOff = false
	case "expire":
		in.clock.Set(lib.T0.Add(3 * time.Second))
	}
	return nil
}

func (in *c10inst) Battery() (vs []*lib.Violation) {
	add := func(v *lib.Violation) {
		if v != nil {
			vs = append(vs, v)
		}
	}
	if in.locOff {
		vs = append(vs, in.disabledBattery()...)
		add(in.checkEvent(""))
		return vs
	}
	add(in.checkEvent(""))
	for _, id := range in.ids {
		add(in.checkEvent(id))
	}
	for _, id := range in.ids {
		r := in.liveRule(id)
		if r == nil || in.unk[id] {
			continue
		}
		en, err := in.loc.RuleEnabled(in.ctx, id)
		if err != nil || en == in.dis[id] {
			add(viol("C10/"+in.kind+"/ruleenabled-wrong", fmt.Sprintf("[%s] RuleEnabled(%s)=%v,%v but disabled flag is %v", in.cfg(), id, en, err, in.dis[id]), !in.dis[id], en))
		}
	}
	ls, err := in.loc.ListRules(in.ctx, true)
	if err != nil {
		add(viol("C10/"+in.kind+"/listrules-error", fmt.Sprintf("[%s] ListRules: %v", in.cfg(), err), nil, err.Error()))
	} else {
		var want []string
		for _, id := range in.ids {
			if in.liveRule(id) != nil {
				want = append(want, id)
			}
		}
		sort.Strings(ls)
		if strings.Join(ls, ",") != strings.Join(want, ",") {
			add(viol("C10/"+in.kind+"/listrules-wrong", fmt.Sprintf("[%s] ListRules=%v, live rules %v", in.cfg(), ls, want), want, ls))
		}
	}
	// once more after the probes (dispatch must not have changed anything)
	add(in.checkEvent(""))
	return vs
}

// disabledBattery: in a disabled location every public operation must report it.
func (in *c10inst) disabledBattery() (vs []*lib.Violation) {
	before := core.VerifDumpJSON(in.loc.VerifState()) + lib.Canon(lib.Pairs(in.ctx, in.store, "L"))
	ctx, loc := in.ctx, in.loc
	calls := []struct {
		name string
		f    func() error
	}{
		{"AddFact", func() error { _, e := loc.AddFact(ctx, "zz", core.Map{"k": "v"}); return e }},
		{"RemFact", func() error { _, e := loc.RemFact(ctx, "zz"); return e }},
		{"GetFact", func() error { _, e := loc.GetFact(ctx, "r1"); return e }},
		{"SearchFacts", func() error { _, e := loc.SearchFacts(ctx, core.Map{"rule": "?r"}, false); return e }},
		{"SearchFacts(inherited)", func() error { _, e := loc.SearchFacts(ctx, core.Map{"rule": "?r"}, true); return e }},
		{"AddRule", func() error { _, e := loc.AddRule(ctx, "zr", core.Map(c10RuleMap("v1", false))); return e }},
		{"RemRule", func() error { _, e := loc.RemRule(ctx, "r1"); return e }},
		{"GetRule", func() error { _, e := loc.GetRule(ctx, "r1"); return e }},
		{"EnableRule", func() error { return loc.EnableRule(ctx, "r1", false) }},
		{"RuleEnabled", func() error { _, e := loc.RuleEnabled(ctx, "r1"); return e }},
		{"ListRules", func() error { _, e := loc.ListRules(ctx, true); return e }},
		{"SearchRules", func() error { _, e := loc.SearchRules(ctx, core.Map{"e": "1"}, true); return e }},
		{"ProcessEvent", func() error {
			_, c := loc.ProcessEvent(ctx, core.Map{"e": "1"})
			if c == nil {
				return nil
			}
			return c
		}},
		{"Query", func() error { _, e := loc.Query(ctx, `{"pattern":{"rule":"?r"}}`); return e }},
		{"SetParents", func() error { _, e := loc.SetParents(ctx, []string{"Q"}); return e }},
		{"GetParents", func() error { _, e := loc.GetParents(ctx); return e }},
		{"StateSize", func() error { _, e := loc.StateSize(ctx); return e }},
		{"RunJavascript", func() error { _, e := loc.RunJavascript(ctx, "1+1", nil, nil, nil); return e }},
		{"Clear", func() error { return loc.Clear(ctx) }},
		{"Delete", func() error { return loc.Delete(ctx) }},
	}
	for _, c := range calls {
		err := c.f()
		in.w.Count("disabled_location_api_calls", 1)
		if !isDisabledErr(err) {
			vs = append(vs, viol("C10/"+in.kind+"/disabled-location-serves-"+c.name, fmt.Sprintf("[%s] %s in a disabled location returned %v instead of the disabled error", in.cfg(), c.name, err), "Location is disabled.", fmt.Sprint(err)))
		}
	}
	after := core.VerifDumpJSON(in.loc.VerifState()) + lib.Canon(lib.Pairs(in.ctx, in.store, "L"))
	if before != after {
		vs = append(vs, fviol("C10/"+in.kind+"/disabled-location-state-changed", fmt.Sprintf("[%s] refused operations changed state or storage of a disabled location", in.cfg()), before, after))
	}
	return vs
}

func c10Scenarios(w *lib.Worker) []*lib.Scenario {
	var scs []*lib.Scenario
	for _, cfg := range []struct {
		ids   []string
		depth [2]int
	}{{[]string{"r1"}, [2]int{6, 9}}, {[]string{"r1", "r2"}, [2]int{4, 5}}} {
		ops := c10Ops(cfg.ids)
		text := make([]string, len(ops))
		for i, o := range ops {
			text[i] = o.String()
		}
		depth := cfg.depth[0]
		if w.Tier == "thorough" {
			depth = cfg.depth[1]
		}
		for _, kind := range []string{"indexed", "linear"} {
			for _, parent := range []bool{false, true} {
				kind, parent, ops, ids := kind, parent, ops, cfg.ids
				scs = append(scs, &lib.Scenario{
					Name: fmt.Sprintf("C10-%s-parent=%v-ids=%d", kind, parent, len(ids)), Ops: text, MaxDepth: depth,
					Fresh: func() lib.Instance {
						clk := lib.Clock()
						ctx := lib.Ctx()
						in := &c10inst{kind: kind, parent: parent, ops: ops, ids: ids, w: w, clock: clk, ctx: ctx, store: lib.MemStore(ctx),
							rules: map[string]*c10rule{}, dis: map[string]bool{}, unk: map[string]bool{}}
						in.open()
						if parent {
							if _, err := in.loc.SetParents(ctx, []string{"P"}); err != nil {
								panic(err)
							}
						}
						return in
					},
					Enabled: func(path []int, op int) bool {
						o := ops[op]
						if o.Kind != "enable" && o.Kind != "disable" {
							return true
						}
						// toggle only ids that currently hold a rule
						have := false
						for _, p := range path {
							po := ops[p]
							if po.Id != o.Id {
								continue
							}
							switch po.Kind {
							case "add", "addexp":
								have = true
							case "rem":
								have = false
							}
						}
						return have
					},
				})
			}
		}
	}
	return scs
}

func init() {
	lib.Register(&lib.Check{
		ID:    "C10",
		Level: "model_checking",
		Rule: "explicit-state BFS over AddRule(v1|v2|expiring)/RemRule/EnableRule/Reload/location-disable/-enable/clock-past-expiry/ProcessEvent/trigger! sequences, {indexed,linear} x {rules local, rules in a parent toggled in the child}, one rule id to depth 6 (9 thorough) and two ids to depth 4 (5); plain event, one trigger! event per id, RuleEnabled, ListRules compared in every state; in every disabled state 20 public Location operations must return the disabled error and leave the privileged snapshot unchanged; " +
			"non-trivial = distinct (configuration, event, live rules, fired versions) with at least one rule firing",
		Assumptions: []string{
			"EnableRule is applied only to ids that currently hold a rule (disabling an absent id leaves the next add unspecified)",
			"for a rule inherited from a parent, removing it in the parent while it is flagged disabled in the child leaves the flag's meaning for a re-added rule unspecified until the next EnableRule",
			"an overwritten (not removed) rule keeps its disabled flag",
		},
		Budget: func(tier string) time.Duration {
			if tier == "thorough" {
				return 25 * time.Minute
			}
			return 4 * time.Minute
		},
		Run: func(w *lib.Worker) {
			for _, sc := range c10Scenarios(w) {
				w.BFS(sc)
			}
		},
		ReplayFn: func(w *lib.Worker, raw json.RawMessage) { w.ReplaySeq(raw, c10Scenarios(w)) },
	})
}
