package main

// C01 — event dispatch evaluates exactly the rules whose `when` matches.
//
// History part (engine SEQ): AddRule(id, when in W) / RemRule / AddFact over a
// rule id / EnableRule / Clear / ProcessEvent, on {indexed, linear} x {no
// parent, rule r2 living in a parent location}.  After every step every event
// of E is dispatched and compared with the model: dispatched set = stored,
// enabled rules whose current `when` matches (core.Matches is the definition
// of "matches"; C05 checks the matcher), each child's Bindingss = that match;
// the FindRules disposition must be complete; SearchRules must return a
// superset of the matching stored rules and nothing that is not a stored rule.
//
// Pair-wise part (engine GEN): every (when, event) pair of a bounded grammar
// on a fresh PatternIndex and fresh locations: Matches != {} => candidate.

import (
	"encoding/json"
	"fmt"
	"sort"
	"strings"
	"time"

	"github.com/Comcast/rulio/core"
	"verifharness/lib"
)

var c01Whens = []string{
	`{"a":"x"}`,
	`{"a":"?v"}`,
	`{"a":{"b":"x"}}`,
	`{"a":["x","y"]}`,
	`{"a":[2,10]}`,
	`{"a":"x","b":"y"}`,
	`{"b":"y"}`,
	`{"a":{"b":"?v","c":"z"}}`,
	`{"?k":"x"}`,
	`{"a":1}`,
	`{"a":true}`,
	`{"a":null}`,
	`{"a":{}}`,
	`{"a":[]}`,
	`{}`,
	// a variable at one key and a further constraint behind it: the index walk has to
	// continue from the variable branch whatever the event holds under that key
	`{"a":"?v","b":"y"}`,
	// a `when` the rule parser accepts and the pattern index refuses (an array it cannot
	// sort): AddRule may fail, and a failed replacement must leave the old rule dispatched
	`{"a":[1,"x"]}`,
}

const c01RefusedWhen = 16

var c01Events = []string{
	`{"a":"x"}`,
	`{"a":"x","b":"y"}`,
	`{"a":{"b":"x","c":"z"}}`,
	`{"a":["x","y","z"]}`,
	`{"a":[10,7,2]}`,
	`{"a":1}`,
	`{"a":true}`,
	`{"a":null}`,
	`{"b":"y"}`,
	`{"a":{}}`,
	`{"a":[]}`,
	`{"c":"q"}`,
	`{"a":[],"b":"y"}`,
	`{"a":{},"b":"y"}`,
}

type c01op struct {
	Kind string // addrule remrule addfact enable disable clear event
	Id   string
	Idx  int
}

func (o c01op) String() string {
	switch o.Kind {
	case "addrule":
		return fmt.Sprintf("AddRule(%s,when=%s)", o.Id, c01Whens[o.Idx])
	case "remrule":
		return fmt.Sprintf("RemRule(%s)", o.Id)
	case "addfact":
		return fmt.Sprintf("AddFact(%s,{\"plain\":\"fact\"})", o.Id)
	case "enable":
		return fmt.Sprintf("EnableRule(%s,true)", o.Id)
	case "disable":
		return fmt.Sprintf("EnableRule(%s,false)", o.Id)
	case "clear":
		return "Clear()"
	case "event":
		return fmt.Sprintf("ProcessEvent(%s)", c01Events[o.Idx])
	}
	return "?"
}

func c01Ops(whens []int) []c01op {
	var ops []c01op
	for _, e := range []int{0, 2, 4} {
		ops = append(ops, c01op{"event", "", e})
	}
	for _, id := range []string{"r1", "r2"} {
		for _, wi := range whens {
			ops = append(ops, c01op{"addrule", id, wi})
		}
	}
	for _, id := range []string{"r1", "r2"} {
		ops = append(ops, c01op{"remrule", id, 0}, c01op{"addfact", id, 0}, c01op{"disable", id, 0}, c01op{"enable", id, 0})
	}
	ops = append(ops, c01op{"clear", "", 0})
	return ops
}

type c01ent struct {
	rule     bool
	when     map[string]interface{}
	whenText string
}

type c01inst struct {
	kind   string
	parent bool
	ops    []c01op
	ctx    *core.Context
	loc    *core.Location // where events go
	ploc   *core.Location // parent (r2 lives here) when parent==true
	store  *core.MemStorage
	model  map[string]*c01ent
	dis    map[string]bool
	w      *lib.Worker
}

func (in *c01inst) Close() {}

func (in *c01inst) home(id string) *core.Location {
	if in.parent && id == "r2" {
		return in.ploc
	}
	return in.loc
}

func (in *c01inst) Key() string {
	var sb strings.Builder
	for _, id := range lib.SortedKeys(in.model) {
		e := in.model[id]
		fmt.Fprintf(&sb, "%s:%v:%s;", id, e.rule, e.whenText)
	}
	sb.WriteString(lib.Canon(in.dis))
	sb.WriteString("|")
	sb.WriteString(core.VerifKeyJSON(in.loc.VerifState()))
	sb.WriteString(lib.Canon(lib.Pairs(in.ctx, in.store, "L")))
	if in.parent {
		sb.WriteString("|")
		sb.WriteString(core.VerifKeyJSON(in.ploc.VerifState()))
		sb.WriteString(lib.Canon(lib.Pairs(in.ctx, in.store, "P")))
	}
	return sb.String()
}

func c01Rule(when map[string]interface{}) map[string]interface{} {
	return map[string]interface{}{
		"when":   map[string]interface{}{"pattern": lib.CopyMap(when)},
		"action": map[string]interface{}{"code": "1"},
	}
}

func whenHasEmptyContainer(x interface{}) bool {
	switch v := x.(type) {
	case map[string]interface{}:
		if len(v) == 0 {
			return true
		}
		for _, y := range v {
			if whenHasEmptyContainer(y) {
				return true
			}
		}
	case []interface{}:
		if len(v) == 0 {
			return true
		}
		for _, y := range v {
			if whenHasEmptyContainer(y) {
				return true
			}
		}
	}
	return false
}

func hasNullInArray(x interface{}) bool {
	switch v := x.(type) {
	case map[string]interface{}:
		for _, y := range v {
			if hasNullInArray(y) {
				return true
			}
		}
	case []interface{}:
		for _, y := range v {
			if y == nil || hasNullInArray(y) {
				return true
			}
		}
	}
	return false
}

func hasVarKey(x interface{}) bool {
	switch v := x.(type) {
	case map[string]interface{}:
		for k, y := range v {
			if strings.HasPrefix(k, "?") || hasVarKey(y) {
				return true
			}
		}
	case []interface{}:
		for _, y := range v {
			if hasVarKey(y) {
				return true
			}
		}
	}
	return false
}

// hasUnsortableArray: an array of >= 2 elements that is not homogeneous
// strings / numbers / booleans (what core.IsSortable refuses).
func hasUnsortableArray(x interface{}) bool {
	switch v := x.(type) {
	case map[string]interface{}:
		for _, y := range v {
			if hasUnsortableArray(y) {
				return true
			}
		}
	case []interface{}:
		if !core.IsSortable(v) {
			return true
		}
		for _, y := range v {
			if hasUnsortableArray(y) {
				return true
			}
		}
	}
	return false
}

// dispatchedAlone: does a fresh indexed location holding ONLY this rule dispatch it?
func dispatchedAlone(when, event map[string]interface{}) bool {
	ctx := lib.Ctx()
	loc := lib.MustLoc(ctx, "indexed", "ISO", lib.MemStore(ctx))
	if _, err := loc.AddRule(ctx, "r", core.Map(c01Rule(when))); err != nil {
		return false
	}
	fr, cond := loc.ProcessEvent(ctx, core.Map(lib.CopyMap(event)))
	if cond != nil || fr == nil {
		return false
	}
	for _, ch := range fr.Children {
		if ch.Rule.Id == "r" {
			return true
		}
	}
	return false
}

// classifyMiss names the recorded indexed-state defects by the failing input.
func classifyMiss(kind string, when, event map[string]interface{}, errText, generic string) string {
	if kind != "indexed" {
		return generic
	}
	switch {
	case hasUnsortableArray(event) && (errText == "" || strings.Contains(errText, "not sortable")):
		return "C01/indexed/unsortable-event-array-refused"
	case when != nil && hasNullInArray(when):
		return "C01/indexed/null-inside-when-array-never-matched"
	case when != nil && hasVarKey(when) && dispatchedAlone(when, event):
		return "C01/indexed/property-variable-when-shadowed-by-literal-key-of-another-rule"
	}
	return generic
}

// expectation for one event
type c01exp struct {
	dispatch map[string][]string // id -> bindings set
	matching map[string]bool     // stored rules whose when matches (enabled or not)
	defined  bool
}

func (in *c01inst) expect(event map[string]interface{}) c01exp {
	ex := c01exp{dispatch: map[string][]string{}, matching: map[string]bool{}, defined: true}
	for id, e := range in.model {
		if !e.rule {
			continue
		}
		bss, err := core.Matches(nil, lib.CopyMap(e.when), lib.CopyMap(event))
		if err != nil {
			ex.defined = false
			return ex
		}
		if len(bss) == 0 {
			continue
		}
		ex.matching[id] = true
		if !in.dis[id] {
			ex.dispatch[id] = lib.BindingsSetN(bss)
		}
	}
	return ex
}

func (in *c01inst) checkEvent(ei int) (vs []*lib.Violation) {
	etxt := c01Events[ei]
	event := lib.JM(etxt)
	ex := in.expect(event)
	if !ex.defined {
		in.w.Count("oracle_undefined", 1)
		return nil
	}
	cfg := in.kind
	if in.parent {
		cfg += "+parent"
	}
	fr, cond := in.loc.ProcessEvent(in.ctx, core.Map(lib.CopyMap(event)))
	if cond != nil || fr == nil || fr.Disposition != core.Complete {
		msg := "nil"
		if cond != nil {
			msg = cond.Msg
		} else if fr != nil && fr.Disposition != nil {
			msg = fr.Disposition.Msg
		}
		sig := "C01/" + in.kind + "/dispatch-failed"
		switch {
		case strings.Contains(msg, "Rule body missing"):
			sig = "C01/" + in.kind + "/stale-index-entry-after-overwrite-by-fact-blocks-dispatch"
		case strings.Contains(msg, "not sortable"):
			sig = classifyMiss(in.kind, nil, event, msg, sig)
		}
		vs = append(vs, viol(sig, fmt.Sprintf("[%s] ProcessEvent(%s) did not complete: %s; expected dispatch of %v", cfg, etxt, msg, lib.SortedKeys(ex.dispatch)), lib.SortedKeys(ex.dispatch), msg))
		return vs
	}
	got := map[string][]string{}
	for _, ch := range fr.Children {
		id := ch.Rule.Id
		if _, dup := got[id]; dup {
			vs = append(vs, viol("C01/"+in.kind+"/rule-dispatched-twice", fmt.Sprintf("[%s] ProcessEvent(%s) evaluated rule %s twice", cfg, etxt, id), nil, id))
		}
		got[id] = lib.BindingsSetN(stripEventBindings(ch.Bindingss))
		if ch.Disposition != core.Complete {
			vs = append(vs, viol("C01/"+in.kind+"/evalrule-incomplete", fmt.Sprintf("[%s] ProcessEvent(%s): rule %s node disposition %v", cfg, etxt, id, ch.Disposition), "complete", fmt.Sprint(ch.Disposition)))
		}
	}
	for _, id := range lib.SortedKeys(ex.dispatch) {
		g, ok := got[id]
		if !ok {
			sig := classifyMiss(in.kind, in.model[id].when, event, "", "C01/"+in.kind+"/matching-rule-skipped")
			vs = append(vs, viol(sig, fmt.Sprintf("[%s] ProcessEvent(%s) skipped rule %s whose when %s matches", cfg, etxt, id, in.model[id].whenText), lib.SortedKeys(ex.dispatch), lib.SortedKeys(got)))
			continue
		}
		if strings.Join(g, ";") != strings.Join(ex.dispatch[id], ";") {
			vs = append(vs, viol("C01/"+in.kind+"/wrong-bindings", fmt.Sprintf("[%s] ProcessEvent(%s) rule %s (when %s): bindings %v, matching yields %v", cfg, etxt, id, in.model[id].whenText, g, ex.dispatch[id]), ex.dispatch[id], g))
		}
	}
	for _, id := range lib.SortedKeys(got) {
		if _, ok := ex.dispatch[id]; !ok {
			why := "its when does not match"
			if e, have := in.model[id]; !have {
				why = "it is not stored"
			} else if !e.rule {
				why = "the id now holds a plain fact"
			} else if in.dis[id] {
				why = "it is disabled"
			}
			vs = append(vs, viol("C01/"+in.kind+"/non-matching-rule-dispatched", fmt.Sprintf("[%s] ProcessEvent(%s) dispatched rule %s although %s", cfg, etxt, id, why), lib.SortedKeys(ex.dispatch), lib.SortedKeys(got)))
		}
	}
	if len(ex.dispatch) > 0 && len(vs) == 0 {
		in.w.Nontrivial(cfg + "|" + etxt + "|" + lib.Canon(ex.dispatch))
	}
	// SearchRules: superset of matching stored rules, subset of stored rules
	rs, err := in.loc.SearchRules(in.ctx, core.Map(lib.CopyMap(event)), true)
	if err != nil {
		sig := "C01/" + in.kind + "/searchrules-error"
		if strings.Contains(err.Error(), "Rule body missing") {
			sig = "C01/" + in.kind + "/stale-index-entry-after-overwrite-by-fact-blocks-dispatch"
		} else if strings.Contains(err.Error(), "not sortable") {
			sig = classifyMiss(in.kind, nil, event, err.Error(), sig)
		}
		vs = append(vs, viol(sig, fmt.Sprintf("[%s] SearchRules(%s): %v", cfg, etxt, err), nil, err.Error()))
		return vs
	}
	for id := range ex.matching {
		if _, ok := rs[id]; !ok {
			sig := classifyMiss(in.kind, in.model[id].when, event, "", "C01/"+in.kind+"/searchrules-misses-matching-rule")
			vs = append(vs, viol(sig, fmt.Sprintf("[%s] SearchRules(%s) misses rule %s (when %s)", cfg, etxt, id, in.model[id].whenText), nil, lib.SortedKeys(rs)))
		}
	}
	for id := range rs {
		if e, ok := in.model[id]; !ok || !e.rule {
			vs = append(vs, viol("C01/"+in.kind+"/searchrules-returns-non-rule", fmt.Sprintf("[%s] SearchRules(%s) returned %s which is not a stored rule", cfg, etxt, id), nil, id))
		}
	}
	return vs
}

// stripEventBindings drops the ?event/?location/?ruleId bindings EvalRuleCondition adds in place.
func stripEventBindings(bss []core.Bindings) []core.Bindings {
	out := make([]core.Bindings, 0, len(bss))
	for _, bs := range bss {
		c := core.Bindings{}
		for k, v := range bs {
			if k == "?event" || k == "?location" || k == "?ruleId" {
				continue
			}
			c[k] = v
		}
		out = append(out, c)
	}
	return out
}

func (in *c01inst) Apply(opi int) *lib.Violation {
	op := in.ops[opi]
	switch op.Kind {
	case "event":
		vs := in.checkEvent(op.Idx)
		if len(vs) > 0 {
			return vs[0]
		}
	case "addrule":
		when := lib.JM(c01Whens[op.Idx])
		id, err := in.home(op.Id).AddRule(in.ctx, op.Id, core.Map(c01Rule(when)))
		if err != nil && op.Idx == c01RefusedWhen {
			// refused: nothing was added, whatever the id held before is still there
			return nil
		}
		if err != nil || id != op.Id {
			return fviol("C01/"+in.kind+"/addrule-failed", fmt.Sprintf("%s: id=%q err=%v", op, id, err), "ok", fmt.Sprint(err))
		}
		in.model[op.Id] = &c01ent{rule: true, when: when, whenText: c01Whens[op.Idx]}
	case "remrule":
		_, had := in.model[op.Id]
		_, err := in.home(op.Id).RemRule(in.ctx, op.Id)
		if had && err != nil {
			return fviol("C01/"+in.kind+"/remrule-failed", fmt.Sprintf("%s: %v", op, err), "ok", err.Error())
		}
		delete(in.model, op.Id)
		if in.home(op.Id) == in.loc {
			delete(in.dis, op.Id)
		}
	case "addfact":
		_, err := in.home(op.Id).AddFact(in.ctx, op.Id, core.Map{"plain": "fact"})
		if err != nil {
			return fviol("C01/"+in.kind+"/addfact-failed", fmt.Sprintf("%s: %v", op, err), "ok", err.Error())
		}
		in.model[op.Id] = &c01ent{rule: false, whenText: "-"}
	case "enable", "disable":
		err := in.loc.EnableRule(in.ctx, op.Id, op.Kind == "enable")
		if err != nil {
			return fviol("C01/"+in.kind+"/enablerule-failed", fmt.Sprintf("%s: %v", op, err), "ok", err.Error())
		}
		if op.Kind == "disable" {
			in.dis[op.Id] = true
		} else {
			delete(in.dis, op.Id)
		}
	case "clear":
		if err := in.loc.Clear(in.ctx); err != nil {
			return fviol("C01/"+in.kind+"/clear-failed", fmt.Sprintf("Clear: %v", err), "ok", err.Error())
		}
		for id := range in.model {
			if in.home(id) == in.loc {
				delete(in.model, id)
			}
		}
		in.dis = map[string]bool{}
		if in.parent {
			// Clear also removed the parents property: restore the topology
			if _, err := in.loc.SetParents(in.ctx, []string{"P"}); err != nil {
				return fviol("C01/"+in.kind+"/setparents-failed", err.Error(), nil, nil)
			}
		}
	}
	return nil
}

func (in *c01inst) Battery() (vs []*lib.Violation) {
	for i := range c01Events {
		vs = append(vs, in.checkEvent(i)...)
	}
	return vs
}

func c01Scenarios(w *lib.Worker) []*lib.Scenario {
	// Two alphabets: the "clean" one (patterns every implementation is expected
	// to handle) explored deepest, and the one with empty containers in `when`
	// (a recorded defect of the indexed state) explored separately so that the
	// recorded defect does not hide histories behind it.
	clean := []int{0, 1, 2, 3, 4, 5, 6, 7, 8, 9, 10, 11, c01RefusedWhen}
	all := []int{0, 1, 2, 3, 4, 5, 6, 7, 8, 9, 10, 11, 12, 13, 14}
	depth := 3
	if w.Tier == "thorough" {
		depth = 4
	}
	var scs []*lib.Scenario
	for _, alpha := range []struct {
		name  string
		whens []int
		depth int
	}{{"clean", clean, depth}, {"emptyc", all, 2}} {
		ops := c01Ops(alpha.whens)
		text := make([]string, len(ops))
		for i, o := range ops {
			text[i] = o.String()
		}
		for _, kind := range []string{"indexed", "linear"} {
			for _, parent := range []bool{false, true} {
				kind, parent, ops := kind, parent, ops
				name := fmt.Sprintf("C01-%s-%s-parent=%v", alpha.name, kind, parent)
				scs = append(scs, &lib.Scenario{
					Name: name, Ops: text, MaxDepth: alpha.depth,
					Fresh: func() lib.Instance {
						ctx := lib.Ctx()
						store := lib.MemStore(ctx)
						in := &c01inst{kind: kind, parent: parent, ops: ops, ctx: ctx, store: store,
							model: map[string]*c01ent{}, dis: map[string]bool{}, w: w}
						in.loc = lib.MustLoc(ctx, kind, "L", store)
						if parent {
							in.ploc = lib.MustLoc(ctx, kind, "P", store)
							prov := core.NewSimpleLocationProvider(map[string]*core.Location{"L": in.loc, "P": in.ploc})
							in.loc.Provider = prov
							in.ploc.Provider = prov
							if _, err := in.loc.SetParents(ctx, []string{"P"}); err != nil {
								panic(err)
							}
						}
						return in
					},
					Enabled: func(path []int, op int) bool {
						o := ops[op]
						if o.Kind != "enable" && o.Kind != "disable" {
							return true
						}
						// only toggle ids that currently hold a rule (see DESIGN: disabling an
						// id that does not exist leaves the next add unspecified)
						have := false
						for _, p := range path {
							po := ops[p]
							switch {
							case po.Kind == "addrule" && po.Id == o.Id:
								have = true
							case (po.Kind == "remrule" || po.Kind == "addfact") && po.Id == o.Id:
								have = false
							case po.Kind == "clear" && !(parent && o.Id == "r2"):
								have = false
							}
						}
						return have
					},
				})
			}
		}
	}
	return scs
}

// ---- pair-wise part --------------------------------------------------------

func c01Pairwise(w *lib.Worker) {
	pats := genC01Patterns(w.Tier)
	evs := genC01Events(w.Tier)
	w.Note("pairwise_patterns", len(pats))
	w.Note("pairwise_events", len(evs))
	ctx := lib.Ctx()
	for pi, p := range pats {
		if !w.Mine(pi) {
			continue
		}
		ptxt := lib.Canon(p)
		// fresh index holding only this pattern
		idx := core.NewPatternIndex()
		if err := idx.AddPatternMap(ctx, lib.CopyMap(p), "r"); err != nil {
			w.Count("pairwise_pattern_rejected_by_index", 1)
			continue
		}
		store := lib.MemStore(ctx)
		iloc := lib.MustLoc(ctx, "indexed", "PI", store)
		lloc := lib.MustLoc(ctx, "linear", "PL", store)
		okI, okL := true, true
		if _, err := iloc.AddRule(ctx, "r", core.Map(c01Rule(p))); err != nil {
			okI = false
		}
		if _, err := lloc.AddRule(ctx, "r", core.Map(c01Rule(p))); err != nil {
			okL = false
		}
		for _, e := range evs {
			w.Eval(1)
			etxt := lib.Canon(e)
			bss, err := core.Matches(nil, lib.CopyMap(p), lib.CopyMap(e))
			if err != nil {
				w.Count("pairwise_oracle_undefined", 1)
				continue
			}
			match := len(bss) > 0
			if match {
				w.Nontrivial("pw|" + ptxt + "|" + etxt)
			}
			ss, err := idx.SearchPatternsMap(ctx, lib.CopyMap(e))
			if match && (err != nil || !ss.Contains("r")) {
				et := ""
				if err != nil {
					et = err.Error()
				}
				sig := classifyMiss("indexed", p, e, et, "C01/patternindex/candidate-missing")
				w.Violation(lib.Violation{Scenario: "pairwise", Signature: sig,
					Summary:  fmt.Sprintf("PatternIndex holding %s does not return it for event %s (err=%v) although the pattern matches with %v", ptxt, etxt, err, lib.BindingsSet(bss)),
					Replay:   map[string]interface{}{"pairwise": true, "pattern": p, "event": e},
					Expected: "candidate r", Observed: fmt.Sprint(ss.Array(), err)})
			}
			for _, c := range []struct {
				kind string
				loc  *core.Location
				ok   bool
			}{{"indexed", iloc, okI}, {"linear", lloc, okL}} {
				if !c.ok {
					continue
				}
				fr, cond := c.loc.ProcessEvent(ctx, core.Map(lib.CopyMap(e)))
				w.AddTrans(1)
				dispatched := false
				var got []string
				if cond == nil && fr != nil {
					for _, ch := range fr.Children {
						if ch.Rule.Id == "r" {
							dispatched = true
							got = lib.BindingsSetN(stripEventBindings(ch.Bindingss))
						}
					}
				}
				exp := lib.BindingsSetN(bss)
				bad := ""
				switch {
				case cond != nil && match:
					bad = "dispatch failed: " + cond.Msg
				case match && !dispatched:
					bad = "matching rule skipped"
				case !match && dispatched:
					bad = "non-matching rule dispatched"
				case match && strings.Join(got, ";") != strings.Join(exp, ";"):
					bad = fmt.Sprintf("bindings %v instead of %v", got, exp)
				}
				if bad != "" {
					sig := strings.ReplaceAll("C01/"+c.kind+"/pairwise-"+strings.SplitN(bad, ":", 2)[0], " ", "-")
					if strings.HasPrefix(bad, "matching rule skipped") || strings.HasPrefix(bad, "dispatch failed") {
						et := ""
						if strings.HasPrefix(bad, "dispatch failed") {
							et = bad
						}
						sig = classifyMiss(c.kind, p, e, et, sig)
					}
					w.Violation(lib.Violation{Scenario: "pairwise", Signature: sig,
						Summary:  fmt.Sprintf("[%s] rule when=%s, event %s: %s", c.kind, ptxt, etxt, bad),
						Replay:   map[string]interface{}{"pairwise": true, "pattern": p, "event": e},
						Expected: exp, Observed: got})
				}
			}
		}
		w.AddStates(1)
		w.AddTraces(1)
	}
}

// bounded grammars (see lib/gen.go)
func genC01Patterns(tier string) []map[string]interface{} {
	leaves := []interface{}{"x", "?v", "?w", 2.0, 10.0, true, nil}
	o := lib.GenOpts{Keys: []string{"a", "b"}, Leaves: leaves, Budget: 4, Depth: 2, VarKey: true, Empty: true, MaxArray: 2}
	if tier == "thorough" {
		o.Budget = 5
	}
	return lib.GenMapsOpts(o)
}

func genC01Events(tier string) []map[string]interface{} {
	leaves := []interface{}{"x", "y", 2.0, 10.0, true, nil}
	o := lib.GenOpts{Keys: []string{"a", "b"}, Leaves: leaves, Budget: 4, Depth: 2, Empty: true, MaxArray: 3}
	if tier == "thorough" {
		o.Budget = 5
	}
	return lib.GenMapsOpts(o)
}

func c01ReplayPair(w *lib.Worker, raw json.RawMessage) bool {
	var r struct {
		Pairwise bool                   `json:"pairwise"`
		Pattern  map[string]interface{} `json:"pattern"`
		Event    map[string]interface{} `json:"event"`
	}
	if json.Unmarshal(raw, &r) != nil || !r.Pairwise {
		return false
	}
	ctx := lib.Ctx()
	bss, err := core.Matches(nil, lib.CopyMap(r.Pattern), lib.CopyMap(r.Event))
	if err != nil || len(bss) == 0 {
		return true
	}
	for _, kind := range []string{"indexed", "linear"} {
		loc := lib.MustLoc(ctx, kind, "R", lib.MemStore(ctx))
		if _, err := loc.AddRule(ctx, "r", core.Map(c01Rule(r.Pattern))); err != nil {
			continue
		}
		fr, cond := loc.ProcessEvent(ctx, core.Map(lib.CopyMap(r.Event)))
		ok := false
		if cond == nil && fr != nil {
			for _, ch := range fr.Children {
				if ch.Rule.Id == "r" && strings.Join(lib.BindingsSetN(stripEventBindings(ch.Bindingss)), ";") == strings.Join(lib.BindingsSetN(bss), ";") {
					ok = true
				}
			}
		}
		if !ok {
			w.Violation(lib.Violation{Signature: "C01/" + kind + "/pairwise-replay", Summary: fmt.Sprintf("[%s] when=%s event=%s not dispatched with %v", kind, lib.Canon(r.Pattern), lib.Canon(r.Event), lib.BindingsSet(bss)), Replay: r})
		}
	}
	return true
}

func init() {
	lib.Register(&lib.Check{
		ID:    "C01",
		Level: "model_checking",
		Rule: "explicit-state BFS over AddRule/RemRule/AddFact-over-rule-id/EnableRule/Clear/ProcessEvent sequences (ids r1,r2; 16 when-patterns hitting every PatternIndex node kind; 14 events) on {indexed,linear} x {no parent, r2 in parent}, every event dispatched and compared with the model in every reached state; " +
			"plus all (when,event) pairs of a bounded grammar on fresh indexes/locations; non-trivial = distinct (configuration, event, non-empty expected dispatch) and distinct matching (pattern,event) pairs",
		Assumptions: []string{
			"core.Matches defines 'matches' (C05 decides the matcher)",
			"rules use the explicit {\"when\":{\"pattern\":...}} form",
			"EnableRule is only applied to ids that currently hold a rule",
		},
		Budget: func(tier string) time.Duration {
			if tier == "thorough" {
				return 25 * time.Minute
			}
			return 4 * time.Minute
		},
		Run: func(w *lib.Worker) {
			c01Pairwise(w)
			scs := c01Scenarios(w)
			sort.SliceStable(scs, func(i, j int) bool { return false })
			for _, sc := range scs {
				w.BFS(sc)
			}
		},
		ReplayFn: func(w *lib.Worker, raw json.RawMessage) {
			if c01ReplayPair(w, raw) {
				return
			}
			w.ReplaySeq(raw, c01Scenarios(w))
		},
	})
}
