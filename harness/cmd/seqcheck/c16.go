package main

// C16 — Bolt-backed cron service (crolt) part.
//
// crolt is package main, so its explorer lives inside the package
// (/verif/inject/crolt/zz_verif_driver.go, added through the build overlay) and
// bin/run.sh builds the instrumented crolt binary; each worker runs that binary
// as a subprocess on its shard of the first-level operations and turns its
// output into violations and coverage numbers.
//
// Engine SEQ: BFS over histories of {POST add (one-shot 1s / 1500ms, recurring
// every second; two accounts in different partitions; two ids), POST rem,
// DeleteAccount, work(partition 0/1) (one pass of the firing loop), clock +=
// 500ms / 1s / TTL, close-and-reopen the Bolt file} plus composite operations
// "Add interrupted between its existence check and its write by a second
// client's whole Add / Delete / DeleteAccount / work" (delivered at Add's clock
// read, outside any Bolt transaction).  After every operation: jobs<p> and
// time<p> agree key for key (every job's TId is a time key holding the same
// record, every time key belongs to the job that points at it, one time key per
// job); every firing (recorded by the HTTP RoundTripper) happens at or after
// the instant in the job's time key, never for a deleted job, at most once per
// pass, a one-shot at most once in its life.

import (
	"bufio"
	"encoding/json"
	"fmt"
	"os"
	"os/exec"
	"strings"
	"time"

	"verifharness/lib"
)

type c16Line struct {
	Violation *struct {
		Signature string   `json:"signature"`
		Summary   string   `json:"summary"`
		Ops       []string `json:"ops"`
		Path      []int    `json:"path"`
	} `json:"violation"`
	Stats *struct {
		States      int64            `json:"states"`
		Transitions int64            `json:"transitions"`
		Executions  int64            `json:"executions"`
		MaxDepth    int              `json:"max_depth"`
		Counts      map[string]int64 `json:"violation_counts"`
		Exhausted   bool             `json:"frontier_exhausted"`
		Capped      bool             `json:"capped"`
		Completed   int              `json:"completed_depth"`
	} `json:"stats"`
}

func c16RunDriver(w *lib.Worker, env []string) {
	bin := os.Getenv("VERIF_CROLT_BIN")
	if bin == "" {
		fmt.Fprintln(os.Stderr, "TOOLING-ERROR: VERIF_CROLT_BIN not set (run through bin/run.sh)")
		os.Exit(3)
	}
	dir := os.Getenv("VERIF_SCRATCH")
	if dir == "" {
		dir = "/dev/shm"
	}
	cmd := exec.Command(bin)
	cmd.Env = append(append(os.Environ(), "VERIF_CROLT=1", "VERIF_WORKDIR="+dir), env...)
	cmd.Stderr = os.Stderr
	out, err := cmd.StdoutPipe()
	if err != nil {
		panic(err)
	}
	if err := cmd.Start(); err != nil {
		fmt.Fprintln(os.Stderr, "TOOLING-ERROR: cannot start crolt driver:", err)
		os.Exit(3)
	}
	sc := bufio.NewScanner(out)
	sc.Buffer(make([]byte, 1<<20), 1<<24)
	gotStats := false
	for sc.Scan() {
		var l c16Line
		if json.Unmarshal(sc.Bytes(), &l) != nil {
			continue
		}
		if v := l.Violation; v != nil {
			w.Violation(lib.Violation{Scenario: "C16/crolt", Signature: "C16/crolt/" + v.Signature,
				Summary: v.Summary + " — history: " + strings.Join(v.Ops, "; "), Replay: map[string]interface{}{"crolt_path": v.Path, "ops": v.Ops}})
		}
		if s := l.Stats; s != nil {
			gotStats = true
			w.AddStates(s.States)
			w.AddTrans(s.Transitions)
			w.AddTraces(s.Executions)
			w.Eval(s.Executions)
			w.Depth(s.MaxDepth)
			if s.Capped {
				w.Cap(fmt.Sprintf("crolt shard %d: time budget reached at depth %d; depth %d was completed", w.Shard, s.MaxDepth, s.Completed))
				w.SetExhaustive(false)
			}
			for sig, n := range s.Counts {
				w.Count("crolt:"+sig, n)
			}
			for i := int64(0); i < s.States; i++ {
				w.Nontrivial(fmt.Sprintf("crolt-state-%d-%d", w.Shard, i))
			}
		}
	}
	if err := cmd.Wait(); err != nil || !gotStats {
		fmt.Fprintln(os.Stderr, "TOOLING-ERROR: crolt driver failed:", err)
		os.Exit(3)
	}
}

func init() {
	lib.Register(&lib.Check{
		ID:    "C16",
		Level: "model_checking",
		Rule:  "crolt (Bolt-backed) part: explicit-state BFS (depth 6 quick / 8 thorough, state = both buckets of both partitions + clock + per-job life-cycle bits) over {POST add of one-shot and recurring jobs through AddHandler, POST rem through DeleteHandler, DeleteAccount, one work() pass per partition, clock += 500ms/1s/TTL, close-and-reopen the Bolt file, Add interrupted between its existence check and its write by a second client's Add/Delete/DeleteAccount/work} on the real crolt Cron over a real Bolt file, virtual clock, recording HTTP RoundTripper; invariants after every operation: job table and time index agree key for key, one time key per job, no firing before the instant in the time key, none for a deleted job, at most one per pass, a one-shot at most once",
		Assumptions: []string{
			"MaxJitter = 0 (jitter is a deliberate random offset); 2 partitions; TTL 3s",
			"a second client interleaves only at transaction granularity (Bolt serialises transactions); the interruption is delivered at Add's clock reads, all of which lie between its two transactions",
			"crash atomicity of a single Bolt transaction is Bolt's own guarantee and not re-examined; every point between operations is a reopen point",
		},
		Budget: func(tier string) time.Duration {
			if tier == "thorough" {
				return 20 * time.Minute
			}
			return 3 * time.Minute
		},
		Run: func(w *lib.Worker) {
			depth := 6
			if w.Tier == "thorough" {
				depth = 8
			}
			budget := 0 // 0 = none
			if !w.Deadline.IsZero() {
				if budget = int(time.Until(w.Deadline).Seconds()) - 20; budget < 30 {
					budget = 30
				}
			}
			c16RunDriver(w, []string{fmt.Sprintf("VERIF_CROLT_DEPTH=%d", depth), fmt.Sprintf("VERIF_CROLT_SHARD=%d/%d", w.Shard, w.NShards), fmt.Sprintf("VERIF_CROLT_BUDGET_S=%d", budget)})
		},
		ReplayFn: func(w *lib.Worker, raw json.RawMessage) {
			var rp struct {
				Path []int `json:"crolt_path"`
			}
			json.Unmarshal(raw, &rp)
			var xs []string
			for _, i := range rp.Path {
				xs = append(xs, fmt.Sprint(i))
			}
			c16RunDriver(w, []string{"VERIF_CROLT_REPLAY=" + strings.Join(xs, ",")})
		},
	})
}
