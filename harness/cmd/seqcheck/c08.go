package main

// C08 — deleteWith removes exactly the dependents, durably, and terminates.
//
// Engine GEN x SEQ: ALL dependency graphs on nodes {a,b,c} where each node's
// deleteWith is any subset of {a,b,c,zz} (16^3 = 4096 graphs: chains, fans,
// cycles, self-loops, dangling targets), in several node-kind variants (all
// facts; a is a rule; b carries a property fact; a is spelled "?q"; a expires),
// x every sequence of one or two deletions of live nodes (explicit, or by
// expiry + read), x both states; for LinearState additionally every iteration
// order of its fact map (owned through the overlay).  Oracle: survivors =
// nodes not reachable from the deleted node along reversed deleteWith edges;
// GetFact, SearchFacts, ListRules and the storage pairs must all show exactly
// the survivors.  A worker that dies (stack overflow) or stalls is attributed
// to the journaled case.

import (
	"encoding/json"
	"fmt"
	"sort"
	"strings"
	"time"

	"github.com/Comcast/rulio/core"
	vmem "github.com/Comcast/rulio/verifrt/vmem"
	"verifharness/lib"
)

type c08case struct {
	Kind    string      `json:"state"`
	Variant string      `json:"variant"`    // facts | rule-a | prop-b | qmark-a | expiry-a
	Deps    [3][]string `json:"deleteWith"` // of a, b, c
	Dels    []string    `json:"deletions"`
	Order   int         `json:"map_order"`
	// Fault > 0: the (Fault-1)-th mutating storage call of the first deletion fails;
	// a failed deletion is retried once without faults
	Fault int `json:"fault,omitempty"`
}

var c08Targets = []string{"a", "b", "c", "zz"}

func c08Graph(g int) [3][]string {
	var deps [3][]string
	for n := 0; n < 3; n++ {
		mask := (g >> uint(4*n)) & 15
		for t := 0; t < 4; t++ {
			if mask&(1<<uint(t)) != 0 {
				deps[n] = append(deps[n], c08Targets[t])
			}
		}
	}
	return deps
}

func c08Name(variant, n string) string {
	if variant == "qmark-a" && n == "a" {
		return "?q"
	}
	if variant == "idnamed-a" && n == "a" {
		return "id" // collides with the "id" key of property facts
	}
	return n
}

var c08Friend = map[string]string{"a": "b", "b": "c", "c": "a"}

// c08Expected: ids surviving after deleting target from the live set.
func c08Closure(edges map[string][]string, live map[string]bool, target string) map[string]bool {
	dead := map[string]bool{target: true}
	for changed := true; changed; {
		changed = false
		for n := range live {
			if dead[n] {
				continue
			}
			for _, t := range edges[n] {
				if dead[t] {
					dead[n] = true
					changed = true
					break
				}
			}
		}
	}
	return dead
}

func c08Run1(w *lib.Worker, c c08case, report bool) []lib.Violation {
	var vs []lib.Violation
	clk := lib.Clock()
	ctx := lib.Ctx()
	store := lib.MemStore(ctx)
	rec := lib.NewRecStore(store)
	loc := lib.MustLoc(ctx, c.Kind, "L", rec)
	if c.Order > 0 {
		vmem.SetChooser(func(n int) int { return c.Order % vmem.Fact(n) })
		defer vmem.SetChooser(nil)
	}
	edges := map[string][]string{}
	live := map[string]bool{}
	rules := map[string]bool{}
	names := []string{"a", "b", "c"}
	for i, n := range names {
		id := c08Name(c.Variant, n)
		var dw []interface{}
		for _, t := range c.Deps[i] {
			tid := c08Name(c.Variant, t)
			dw = append(dw, tid)
			edges[id] = append(edges[id], tid)
		}
		var err error
		if (c.Variant == "rule-a" || c.Variant == "rule-a-updated") && n == "a" {
			r := lib.JM(`{"when":{"pattern":{"e":"?e"}},"action":{"code":"1"}}`)
			if dw != nil {
				r["deleteWith"] = dw
			}
			_, err = loc.AddRule(ctx, id, core.Map(r))
			rules[id] = true
		} else {
			// every node also MENTIONS another node's id outside deleteWith: a
			// bystander must survive the deletion of an id it merely mentions
			f := map[string]interface{}{"n": n, "friend": c08Name(c.Variant, c08Friend[n])}
			if c.Variant == "overwrite-c" && n == "c" {
				// first written as a dependent of a and b, then overwritten
				first := map[string]interface{}{"n": n, "deleteWith": []interface{}{"a", "b"}}
				if _, err := loc.AddFact(ctx, id, core.Map(first)); err != nil {
					panic(err)
				}
			}
			if dw != nil {
				f["deleteWith"] = dw
			}
			if c.Variant == "expiry-a" && n == "a" {
				f["expires"] = float64(lib.T0.Add(2 * time.Second).Unix())
			}
			_, err = loc.AddFact(ctx, id, core.Map(f))
		}
		if err != nil {
			vs = append(vs, lib.Violation{Scenario: "setup", Signature: "C08/" + c.Kind + "/setup-add-failed", Summary: fmt.Sprintf("adding node %s (deleteWith %v) failed: %v", id, dw, err), Replay: c})
			return vs
		}
		live[id] = true
	}
	if c.Variant == "rule-a-updated" {
		// updating a rule is not a deletion: its dependents must stay
		r := lib.JM(`{"when":{"pattern":{"e":"?e"}},"action":{"code":"2"}}`)
		if dw := edges["a"]; len(dw) > 0 {
			xs := make([]interface{}, len(dw))
			for i, t := range dw {
				xs[i] = t
			}
			r["deleteWith"] = xs
		}
		if _, err := loc.AddRule(ctx, "a", core.Map(r)); err != nil {
			vs = append(vs, lib.Violation{Scenario: "setup", Signature: "C08/" + c.Kind + "/rule-update-failed", Summary: err.Error(), Replay: c})
			return vs
		}
	}
	if c.Variant == "prop-b" || c.Variant == "idnamed-a" {
		if err := loc.SetProp(ctx, "b", "color", "red"); err != nil {
			vs = append(vs, lib.Violation{Scenario: "setup", Signature: "C08/" + c.Kind + "/setprop-failed", Summary: err.Error(), Replay: c})
			return vs
		}
		live["!b.color"] = true
		edges["!b.color"] = []string{"b"}
	}
	for di, d := range c.Dels {
		id := c08Name(c.Variant, d)
		if !live[id] {
			return vs // second deletion of an already deleted id: unspecified, not explored
		}
		var err error
		how := "RemFact"
		switch {
		case c.Variant == "expiry-a" && d == "a" && di == 0:
			how = "expiry+GetFact"
			clk.Set(lib.T0.Add(3 * time.Second))
			_, gerr := loc.GetFact(ctx, id)
			if gerr == nil {
				vs = append(vs, lib.Violation{Scenario: "delete", Signature: "C08/" + c.Kind + "/expired-node-still-returned", Summary: "expired node a still returned by GetFact", Replay: c})
			}
		case rules[id]:
			how = "RemRule"
			_, err = loc.RemRule(ctx, id)
		default:
			if c.Fault > 0 && di == 0 {
				rec.FailAt = rec.Mutations() + c.Fault - 1
			}
			_, err = loc.RemFact(ctx, id)
			rec.FailAt = -1
			if c.Fault > 0 && di == 0 && err != nil {
				// the cascade was interrupted by the storage; the caller retries
				how = "RemFact interrupted by a storage fault, then retried RemFact"
				if _, err = loc.RemFact(ctx, id); err != nil {
					return vs // the retry is refused (nothing left under the id): not judged
				}
			}
		}
		w.AddTrans(1)
		if err != nil {
			vs = append(vs, lib.Violation{Scenario: "delete", Signature: "C08/" + c.Kind + "/delete-failed", Summary: fmt.Sprintf("%s(%s) failed: %v", how, id, err), Replay: c})
			return vs
		}
		dead := c08Closure(edges, live, id)
		for n := range dead {
			delete(live, n)
		}
		// observe
		var got, gotStore, gotSearch []string
		for _, n := range []string{c08Name(c.Variant, "a"), "b", "c", "!b.color"} {
			if _, err := loc.GetFact(ctx, n); err == nil {
				got = append(got, n)
			}
		}
		gotStore = lib.PairIds(ctx, store, "L")
		for _, p := range []string{`{"n":"?n"}`, `{"rule":"?r"}`, `{"!color":"?c"}`} {
			sr, err := loc.SearchFacts(ctx, core.Map(lib.JM(p)), false)
			if err != nil {
				vs = append(vs, lib.Violation{Scenario: "observe", Signature: "C08/" + c.Kind + "/search-failed-after-delete", Summary: fmt.Sprintf("SearchFacts(%s) after %s(%s): %v", p, how, id, err), Replay: c})
				continue
			}
			for _, f := range sr.Found {
				gotSearch = append(gotSearch, f.Id)
			}
		}
		want := lib.SortedKeys(live)
		sort.Strings(got)
		sort.Strings(gotSearch)
		for _, o := range []struct {
			via string
			got []string
		}{{"GetFact", got}, {"storage", gotStore}, {"SearchFacts", gotSearch}} {
			if strings.Join(o.got, ",") != strings.Join(want, ",") {
				missing, extra := diffSets(want, o.got)
				if c.Fault > 0 && di == 0 && len(missing) == 0 {
					// after an interrupted cascade and an acknowledged retry, what is judged
					// is what the property states about the retried deletion itself: nothing
					// that names the deleted id may survive.  A deeper dependent whose own
					// target already went in the interrupted pass is not judged here.
					direct := false
					for _, n := range extra {
						for _, t := range edges[n] {
							if t == id {
								direct = true
							}
						}
					}
					if !direct {
						continue
					}
				}
				kind := "too-much-deleted"
				if len(extra) > 0 && len(missing) == 0 {
					kind = "dependent-survives"
				} else if len(extra) > 0 {
					kind = "wrong-set-deleted"
				}
				sig := "C08/" + c.Kind + "/" + kind
				qdel := false
				for n := range dead {
					if strings.HasPrefix(n, "?") {
						qdel = true // a deleted id (explicit or dependent) looks like a variable
					}
				}
				if qdel && kind == "too-much-deleted" {
					sig = "C08/" + c.Kind + "/id-starting-with-question-mark-deletes-every-dependent-fact"
				}
				vs = append(vs, lib.Violation{Scenario: "observe", Signature: sig,
					Summary: fmt.Sprintf("[%s/%s] deleteWith a=%v b=%v c=%v; after %s(%s) %s shows %v, expected survivors %v", c.Kind, c.Variant, c.Deps[0], c.Deps[1], c.Deps[2], how, id, o.via, o.got, want),
					Replay:  c, Expected: want, Observed: o.got})
				return vs // model and implementation have diverged: later deletions would only echo this
			}
		}
		if len(dead) > 1 && len(vs) == 0 && report {
			w.Nontrivial(fmt.Sprintf("%s|%s|%v|%v|%s", c.Kind, c.Variant, c.Deps, c.Dels[:di+1], strings.Join(want, ",")))
		}
	}
	return vs
}

func c08Run(w *lib.Worker) {
	variants := []string{"facts", "rule-a", "prop-b", "qmark-a", "expiry-a", "overwrite-c", "idnamed-a", "rule-a-updated"}
	delSeqs := [][]string{{"a"}, {"b"}, {"c"}, {"a", "b"}, {"a", "c"}, {"b", "a"}, {"b", "c"}, {"c", "a"}, {"c", "b"}}
	step := 1
	if w.Tier == "quick" {
		step = 1
	}
	for g := 0; g < 4096; g += step {
		if !w.Mine(g) {
			continue
		}
		if w.TimeUp() {
			w.Cap("time budget reached in dependency-graph enumeration")
			return
		}
		deps := c08Graph(g)
		w.AddStates(1)
		for _, variant := range variants {
			if w.Tier == "quick" && variant != "facts" && g%4 != 0 {
				continue // quick: every 4th graph for the non-default node kinds
			}
			for _, kind := range []string{"indexed", "linear"} {
				orders := 1
				if kind == "linear" {
					orders = 6
					if w.Tier == "quick" {
						orders = 2
					}
				}
				for _, dels := range delSeqs {
					for ord := 0; ord < orders; ord++ {
						faults := 1
						if variant == "facts" && len(dels) == 1 && ord == 0 {
							faults = 4 // no fault, or the 1st/2nd/3rd storage call of the deletion fails
						}
						for fault := 0; fault < faults; fault++ {
							c := c08case{Kind: kind, Variant: variant, Deps: deps, Dels: dels, Order: ord, Fault: fault}
							w.Journal(lib.Canon(c))
							vs := c08Run1(w, c, true)
							w.Eval(1)
							w.AddTraces(1)
							for _, v := range vs {
								w.Violation(v)
							}
						}
					}
				}
			}
		}
		if g%997 == 0 {
			w.Sample(c08case{Kind: "indexed", Variant: "facts", Deps: deps, Dels: []string{"a", "b"}})
		}
	}
}

func init() {
	lib.Register(&lib.Check{
		ID:    "C08",
		Level: "model_checking",
		Rule: "all 4096 deleteWith graphs over nodes {a,b,c} (targets a,b,c and a dangling zz) x 8 variants (facts; a is a rule; a is a rule that is updated once after the graph is built; b has a property fact; a's id is \"?q\"; a expires; c overwritten after first depending on a and b; a's id is \"id\" with a property on b), every node also mentioning another node's id outside deleteWith, x 9 deletion sequences of 1-2 live nodes x {indexed, linear (x iteration orders of its fact map)}; oracle = reverse-reachability closure, observed through GetFact, SearchFacts and storage; " +
			"states = graphs, transitions = deletions executed; non-trivial = distinct cases in which at least one dependent had to be deleted and the outcome matched",
		Assumptions: []string{
			"deleting an id that is not live (never existed or already deleted) is left unspecified and not explored",
			"quick tier: the four non-default node-kind variants run on every 4th graph and linear state under 2 of 6 map orders; thorough runs everything",
		},
		CrashIsViolation: true,
		CrashSignature: func(j string) (string, string) {
			return "C08/cascade-does-not-terminate", "worker died (stack overflow / fatal error) during the cascade of the journaled case"
		},
		Budget: func(tier string) time.Duration {
			if tier == "thorough" {
				return 25 * time.Minute
			}
			return 4 * time.Minute
		},
		Run: c08Run,
		ReplayFn: func(w *lib.Worker, raw json.RawMessage) {
			var c c08case
			if err := json.Unmarshal(raw, &c); err != nil {
				panic(err)
			}
			for _, v := range c08Run1(w, c, false) {
				w.Violation(v)
			}
		},
	})
}
