package main

// C17 — the location cache is transparent (sequential, differential part).
//
// Engine SEQ: BFS over request histories on two locations (named "A" and "a": the
// names differ only in letter case and are nevertheless two locations)
// {CreateLocation, AddFact, RemFact, GetFact, SearchFacts, AddRule,
// ProcessEvent, ClearLocation, clock += 2ms}.  Every history is executed at the
// same time on a core.Location world (no cache at all) and on six sys.System
// worlds: LocationTTL in {Never, 1ms, Forever} x CheckExistence in {off, on}
// (over a recording storage, under the virtual clock), for both states.  Every
// request must give the same answer in all worlds (errors by class); with
// CheckExistence on, a request to a location that was never created (or was
// cleared since) must fail, leave no pair in storage and no cache entry.
// The concurrent clauses (single load, no stale instance) are explored by the
// schedule engine under the same property id.

import (
	"encoding/json"
	"fmt"
	"strings"
	"time"

	"github.com/Comcast/rulio/core"
	"github.com/Comcast/rulio/sys"
	"verifharness/lib"
)

type c17op struct {
	Kind string
	Loc  string
}

func (o c17op) String() string {
	if o.Kind == "tick" {
		return "clock+=2ms"
	}
	return fmt.Sprintf("%s(%s)", o.Kind, o.Loc)
}

func c17Ops() []c17op {
	var ops []c17op
	for _, l := range []string{"A", "a"} {
		for _, k := range []string{"GetFact", "SearchFacts", "ProcessEvent", "CreateLocation", "AddFact", "RemFact", "AddRule", "ClearLocation", "SetCacheTTLProp"} {
			if k == "SetCacheTTLProp" && l == "a" {
				continue
			}
			ops = append(ops, c17op{k, l})
		}
	}
	ops = append(ops, c17op{"tick", ""})
	return ops
}

type c17sys struct {
	name  string
	ttl   time.Duration
	check bool
	w     *sysWorld
	rec   *lib.RecStore
}

type c17inst struct {
	kind    string
	ops     []c17op
	w       *lib.Worker
	clock   interface{ Advance(time.Duration) }
	ref     *coreWorld // reference for the CheckExistence-off worlds
	refOn   *coreWorld // reference for the CheckExistence-on worlds: refused requests never reach it
	worlds  []*c17sys
	created map[string]bool
	// cleared: created, then cleared (ClearLocation also wipes the created marker)
	cleared map[string]bool
}

func (in *c17inst) Close() {}

func (in *c17inst) Key() string {
	var sb strings.Builder
	sb.WriteString(lib.Canon(in.created) + lib.Canon(in.cleared))
	for _, l := range []string{"A", "a"} {
		sb.WriteString("|" + in.ref.KeySnapshot(l) + "|" + in.refOn.KeySnapshot(l))
		for _, s := range in.worlds {
			sb.WriteString("|" + s.w.KeySnapshot(l))
			sb.WriteString(fmt.Sprint(s.w.sys.GetCachedLocations(s.w.ctx)))
		}
	}
	return sb.String()
}

// run executes op on a World and renders the outcome.
func c17Run(w World, op c17op) string {
	res := func(v interface{}, err error) string {
		if err != nil {
			return "err:" + lib.ErrClass(err)
		}
		return fmt.Sprint(v)
	}
	switch op.Kind {
	case "AddFact":
		return res(w.AddFact(op.Loc, "f", map[string]interface{}{"k": op.Loc}))
	case "RemFact":
		err := w.RemFact(op.Loc, "f")
		return res("ok", err)
	case "GetFact":
		return res(w.GetFact(op.Loc, "f"))
	case "SearchFacts":
		return res(w.SearchFacts(op.Loc, map[string]interface{}{"k": "?v"}, false))
	case "SetCacheTTLProp":
		// the location's own cache-TTL property, with a value that is not a number
		// (any fact is a legal fact; the property only matters when the location is loaded)
		return res(w.AddFact(op.Loc, "", map[string]interface{}{"!cacheTTL": "5m"}))
	case "AddRule":
		return res("ok", w.AddRule(op.Loc, "r", lib.JM(`{"when":{"pattern":{"e":"?e"}},"action":{"code":"'fired'"}}`)))
	case "ProcessEvent":
		v, r, err := w.ProcessEvent(op.Loc, map[string]interface{}{"e": "1"})
		return res(fmt.Sprint(v, r), err)
	case "ClearLocation":
		return res("ok", w.Clear(op.Loc))
	}
	return "?"
}

func (in *c17inst) Apply(opi int) *lib.Violation {
	op := in.ops[opi]
	if op.Kind == "tick" {
		in.clock.Advance(2 * time.Millisecond)
		return nil
	}
	if op.Kind == "CreateLocation" {
		for _, s := range in.worlds {
			if _, err := s.w.sys.CreateLocation(s.w.ctx, op.Loc); err != nil {
				return fviol("C17/"+in.kind+"/create-location-failed", fmt.Sprintf("[%s] CreateLocation(%s): %v", s.name, op.Loc, err), nil, err.Error())
			}
		}
		in.created[op.Loc] = true
		in.cleared[op.Loc] = false
		return nil
	}
	if op.Kind == "RemFact" {
		// removing an id that is not stored is left unspecified (the System's cron
		// remove-hook turns it into an error, a bare Location does not)
		_, e1 := in.ref.GetFact(op.Loc, "f")
		_, e2 := in.refOn.GetFact(op.Loc, "f")
		if e1 != nil || e2 != nil {
			in.ref.RemFact(op.Loc, "f")
			if in.created[op.Loc] && !in.cleared[op.Loc] {
				in.refOn.RemFact(op.Loc, "f")
			}
			for _, s := range in.worlds {
				s.w.RemFact(op.Loc, "f")
			}
			return nil
		}
	}
	wantOff := c17Run(in.ref, op)
	wantOn := ""
	if in.created[op.Loc] && !in.cleared[op.Loc] {
		wantOn = c17Run(in.refOn, op)
	}
	want := wantOff
	mut := op.Kind == "AddFact" || op.Kind == "RemFact" || op.Kind == "AddRule" || op.Kind == "ClearLocation" || op.Kind == "SetCacheTTLProp"
	for _, s := range in.worlds {
		if s.check && in.cleared[op.Loc] && mut {
			// a write to a created-then-cleared location lands in some worlds and not
			// in others (the recorded TTL dependence): nothing meaningful to compare
			// behind it
			return &lib.Violation{Signature: "prune", Prune: true}
		}
		if s.check && in.cleared[op.Loc] {
			// ClearLocation removed the created marker: whether the location still
			// "exists" now depends on whether its instance is still cached
			got := c17Run(s.w, op)
			if strings.HasPrefix(got, "err:") != (s.ttl == sys.Never) && want != got {
				_ = got
			}
			if s.ttl != sys.Never && !strings.HasPrefix(got, "err:") && !mut {
				// the never-TTL world refuses the same request: answers depend on the TTL
				g2 := ""
				for _, o := range in.worlds {
					if o.check && o.ttl == sys.Never {
						g2 = c17Run(o.w, op)
					}
				}
				if strings.HasPrefix(g2, "err:") {
					return viol("C17/"+in.kind+"/cleared-location-exists-only-while-cached", fmt.Sprintf("[%s] after CreateLocation + ClearLocation, %s = %s with this TTL but %s with LocationTTL never (CheckExistence on)", s.name, op, got, g2), g2, got)
				}
			}
			continue
		}
		if s.check && !in.created[op.Loc] {
			before := lib.Canon(lib.Pairs(s.w.ctx, s.rec, op.Loc))
			got := c17Run(s.w, op)
			if !strings.HasPrefix(got, "err:") {
				return fviol("C17/"+in.kind+"/request-to-uncreated-location-succeeds", fmt.Sprintf("[%s] %s on a location that was never created (or was cleared) returned %s", s.name, op, got), "error", got)
			}
			if after := lib.Canon(lib.Pairs(s.w.ctx, s.rec, op.Loc)); after != before {
				return fviol("C17/"+in.kind+"/refused-request-created-storage-state", fmt.Sprintf("[%s] refused %s changed storage: %s -> %s", s.name, op, before, after), before, after)
			}
			for _, c := range s.w.sys.GetCachedLocations(s.w.ctx) {
				if c == op.Loc {
					return fviol("C17/"+in.kind+"/refused-request-left-a-cache-entry", fmt.Sprintf("[%s] refused %s left %s in the location cache", s.name, op, op.Loc), "no cache entry", c)
				}
			}
			continue
		}
		got := c17Run(s.w, op)
		want := wantOff
		if s.check {
			want = wantOn
		}
		if got != want {
			v := viol("C17/"+in.kind+"/answer-depends-on-cache-configuration", fmt.Sprintf("[%s] %s = %s; operating the location directly gives %s", s.name, op, got, want), want, got)
			v.Fatal = mut
			return v
		}
	}
	if op.Kind == "ClearLocation" {
		if in.cleared[op.Loc] {
			in.refOn.Clear(op.Loc) // whatever the cached instances still held is gone now
		}
		if in.created[op.Loc] {
			in.cleared[op.Loc] = true // the created marker is a property of the location
		}
	}
	if !strings.HasPrefix(want, "err:") && want != "[]" && want != "[] []" {
		in.w.Nontrivial(in.kind + "|" + op.String() + "|" + want)
	}
	return nil
}

func (in *c17inst) Battery() (vs []*lib.Violation) {
	for i, op := range in.ops {
		if op.Kind == "GetFact" || op.Kind == "SearchFacts" {
			if v := in.Apply(i); v != nil {
				vs = append(vs, v)
			}
		}
	}
	return vs
}

func c17Scenarios(w *lib.Worker) []*lib.Scenario {
	ops := c17Ops()
	text := make([]string, len(ops))
	for i, o := range ops {
		text[i] = o.String()
	}
	depth := 4
	if w.Tier == "thorough" {
		depth = 6
	}
	var scs []*lib.Scenario
	for _, kind := range []string{"indexed", "linear"} {
		kind := kind
		scs = append(scs, &lib.Scenario{
			Name: "C17-differential-" + kind, Ops: text, MaxDepth: depth,
			Fresh: func() lib.Instance {
				clk := lib.Clock()
				in := &c17inst{kind: kind, ops: ops, w: w, clock: clk, created: map[string]bool{}, cleared: map[string]bool{}}
				in.ref = newCoreWorld(kind, []string{"A", "a"}, nil)
				in.refOn = newCoreWorld(kind, []string{"A", "a"}, nil)
				for _, ttl := range []struct {
					n string
					d time.Duration
				}{{"never", sys.Never}, {"1ms", time.Millisecond}, {"forever", sys.Forever}} {
					for _, ce := range []bool{false, true} {
						ctx := lib.Ctx()
						rec := lib.NewRecStore(lib.MemStore(ctx))
						sw := newSysWorld(kind, sysOpts{TTL: ttl.d, CheckExistence: ce, Store: rec})
						in.worlds = append(in.worlds, &c17sys{name: fmt.Sprintf("sys/%s ttl=%s checkExistence=%v", kind, ttl.n, ce), ttl: ttl.d, check: ce, w: sw, rec: rec})
					}
				}
				return in
			},
		})
	}
	return scs
}

func init() {
	lib.Register(&lib.Check{
		ID:    "C17",
		Level: "model_checking",
		Rule: "explicit-state BFS (depth 4 quick / 6 thorough) over {CreateLocation, AddFact, RemFact, GetFact, SearchFacts, AddRule, ProcessEvent, ClearLocation, AddFact of a non-numeric !cacheTTL property} on two locations plus clock += 2ms, every history run simultaneously on a cache-less core.Location world and on six sys.System worlds (LocationTTL Never/1ms/Forever x CheckExistence off/on) under the virtual clock, both states; all answers must agree, refused requests to uncreated locations must leave no storage pair and no cache entry; " +
			"non-trivial = distinct (state, request, non-empty answer) compared across the seven worlds",
		Assumptions: []string{
			"histories avoid expiry and schedules (C06/C07/C15 own those)",
			"errors are compared by class",
			"sequential part; the concurrent clauses are explored by schedcheck under the same id",
		},
		Budget: func(tier string) time.Duration {
			if tier == "thorough" {
				return 25 * time.Minute
			}
			return 4 * time.Minute
		},
		Run: func(w *lib.Worker) {
			for _, sc := range c17Scenarios(w) {
				w.BFS(sc)
			}
		},
		ReplayFn: func(w *lib.Worker, raw json.RawMessage) { w.ReplaySeq(raw, c17Scenarios(w)) },
	})
	_ = core.Complete
}
