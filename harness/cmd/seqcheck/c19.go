package main

// C19 — access controls and enablement are enforced on every path.
//
// Engine GEN x SEQ: the product of protection flags {write key, read key,
// read-only, disabled} (16 states) x caller contexts {no / wrong / right write
// key} x {no / wrong / right read key} (9, each also as a SubContext) x every
// operation of the Location API, including Env.* location functions reached
// from RunJavascript and from rule actions, at several points of a history, on
// both states, directly and through sys.System.  Oracle: a MUTATING operation
// without write authority returns an error (or, for an event whose action
// mutates, runs no effect) and leaves the privileged snapshot (private state +
// storage) identical; a REVEALING operation without read authority returns an
// error and no data; with full authority the result equals the unprotected
// twin's.
//
// Classification (argued here, since the statement quantifies over "operations
// that would change facts, rules or the parent set" / "that reveal facts or
// rules"): AddFact, RemFact, AddRule, RemRule, EnableRule, SetParents, Clear,
// Delete and Env.AddFact/RemFact/AddRule/RemRule are mutating; GetFact,
// SearchFacts, GetRule, ListRules, SearchRules, ProcessEvent (returns the
// matched rules), pattern Query, StateSize and Env.Search/Query/ProcessEvent
// are revealing.  RuleEnabled and GetParents reveal a flag / a name list, not
// facts or rules, and are left unclassified.

import (
	"encoding/json"
	"fmt"
	"sort"
	"strings"
	"time"

	"github.com/Comcast/rulio/core"
	"github.com/Comcast/rulio/sys"
	"verifharness/lib"
)

type c19prot struct {
	WriteKey, ReadKey, ReadOnly, Disabled bool
}

func (p c19prot) String() string {
	var xs []string
	if p.WriteKey {
		xs = append(xs, "writeKey")
	}
	if p.ReadKey {
		xs = append(xs, "readKey")
	}
	if p.ReadOnly {
		xs = append(xs, "readOnly")
	}
	if p.Disabled {
		xs = append(xs, "disabled")
	}
	if len(xs) == 0 {
		return "none"
	}
	return strings.Join(xs, "+")
}

type c19caller struct {
	W, R string // "", "wrong", "right"
	Sub  bool
}

func (c c19caller) String() string {
	s := fmt.Sprintf("write=%s,read=%s", orNone(c.W), orNone(c.R))
	if c.Sub {
		s += ",subcontext"
	}
	return s
}
func orNone(s string) string {
	if s == "" {
		return "none"
	}
	return s
}

type c19op struct {
	Name    string
	Mutates bool // must not change state without write authority
	MustErr bool // (with Mutates) the call itself must report the refusal
	Reveals bool
	Run     func(ctx *core.Context, loc *core.Location) (string, error)
}

func jsRun(code string) func(ctx *core.Context, loc *core.Location) (string, error) {
	return func(ctx *core.Context, loc *core.Location) (string, error) {
		x, err := loc.RunJavascript(ctx, code, nil, nil, nil)
		if err != nil {
			return "", err
		}
		return lib.Canon(exportish(x)), nil
	}
}

// exportish reduces rich Go results (SearchResults, FindRules…) to stable text.
func exportish(x interface{}) interface{} {
	b, err := json.Marshal(x)
	if err != nil {
		return fmt.Sprint(x)
	}
	var y interface{}
	json.Unmarshal(b, &y)
	return scrub(y)
}

// scrub removes timing noise from exported structures.
func scrub(x interface{}) interface{} {
	switch v := x.(type) {
	case map[string]interface{}:
		m := map[string]interface{}{}
		for k, y := range v {
			if k == "Elapsed" || k == "Checked" {
				continue
			}
			m[k] = scrub(y)
		}
		return m
	case []interface{}:
		a := make([]interface{}, len(v))
		for i, y := range v {
			a[i] = scrub(y)
		}
		return a
	}
	return x
}

const c19Rule = `{"when":{"pattern":{"e":"?e"}},"action":{"code":"'fired'"}}`
const c19Writer = `{"when":{"pattern":{"w":"?w"}},"action":{"code":"Env.AddFact('made',{m:1}); 'wrote'"}}`
const c19Remover = `{"when":{"pattern":{"x":"?x"}},"action":{"code":"Env.RemFact('f1'); 'removed'"}}`

func c19Ops() []c19op {
	ev := func(js string) func(ctx *core.Context, loc *core.Location) (string, error) {
		return func(ctx *core.Context, loc *core.Location) (string, error) {
			fr, cond := loc.ProcessEvent(ctx, core.Map(lib.JM(js)))
			v, r := frValues(fr)
			out := fmt.Sprint(v, r)
			if cond != nil {
				return out, cond
			}
			return out, nil
		}
	}
	return []c19op{
		{"AddFact(property-shaped body)", true, true, false, func(ctx *core.Context, loc *core.Location) (string, error) {
			// one '!' key: stored as the property fact !x1.enabled of id x1, whatever id is given
			return loc.AddFact(ctx, "x1", core.Map{"id": "x1", "!enabled": "no", "payload": "p"})
		}},
		{"AddFact(f2)", true, true, false, func(ctx *core.Context, loc *core.Location) (string, error) {
			return loc.AddFact(ctx, "f2", core.Map{"k": "v2"})
		}},
		{"AddFact(f1 overwrite)", true, true, false, func(ctx *core.Context, loc *core.Location) (string, error) {
			return loc.AddFact(ctx, "f1", core.Map{"k": "changed"})
		}},
		{"RemFact(f1)", true, true, false, func(ctx *core.Context, loc *core.Location) (string, error) { return loc.RemFact(ctx, "f1") }},
		{"GetFact(f1)", false, false, true, func(ctx *core.Context, loc *core.Location) (string, error) {
			m, err := loc.GetFact(ctx, "f1")
			return lib.Canon(map[string]interface{}(m)), err
		}},
		{"SearchFacts(local)", false, false, true, func(ctx *core.Context, loc *core.Location) (string, error) {
			sr, err := loc.SearchFacts(ctx, core.Map{"k": "?v"}, false)
			if err != nil {
				return "", err
			}
			return fmt.Sprint(foundList(sr)), nil
		}},
		{"SearchFacts(inherited)", false, false, true, func(ctx *core.Context, loc *core.Location) (string, error) {
			sr, err := loc.SearchFacts(ctx, core.Map{"k": "?v"}, true)
			if err != nil {
				return "", err
			}
			return fmt.Sprint(foundList(sr)), nil
		}},
		{"AddRule(r2)", true, true, false, func(ctx *core.Context, loc *core.Location) (string, error) {
			return loc.AddRule(ctx, "r2", core.Map(lib.JM(c19Rule)))
		}},
		{"RemRule(r1)", true, true, false, func(ctx *core.Context, loc *core.Location) (string, error) { return loc.RemRule(ctx, "r1") }},
		{"GetRule(r1)", false, false, true, func(ctx *core.Context, loc *core.Location) (string, error) {
			m, err := loc.GetRule(ctx, "r1")
			return lib.Canon(map[string]interface{}(m)), err
		}},
		{"EnableRule(r1,false)", true, true, false, func(ctx *core.Context, loc *core.Location) (string, error) {
			return "", loc.EnableRule(ctx, "r1", false)
		}},
		{"ListRules", false, false, true, func(ctx *core.Context, loc *core.Location) (string, error) {
			ls, err := loc.ListRules(ctx, true)
			sort.Strings(ls)
			// ListRules swallows the error of its search: an empty list IS its refusal
			if err == nil && len(ls) == 0 {
				return "[]", nil
			}
			return fmt.Sprint(ls), err
		}},
		{"SearchRules", false, false, true, func(ctx *core.Context, loc *core.Location) (string, error) {
			rs, err := loc.SearchRules(ctx, core.Map{"e": "1"}, true)
			return fmt.Sprint(lib.SortedKeys(rs)), err
		}},
		{"ProcessEvent(plain)", false, false, true, ev(`{"e":"1"}`)},
		{"ProcessEvent(trigger! r1)", false, false, true, ev(`{"trigger!":"r1"}`)},
		{"ProcessEvent(trigger! rw)", true, false, true, ev(`{"trigger!":"rw","w":"1"}`)},
		{"ProcessEvent(action Env.AddFact)", true, false, true, ev(`{"w":"1"}`)},
		{"ProcessEvent(action Env.RemFact)", true, false, true, ev(`{"x":"1"}`)},
		{"Query(pattern)", false, false, true, func(ctx *core.Context, loc *core.Location) (string, error) {
			qr, err := loc.Query(ctx, `{"pattern":{"k":"?v"}}`)
			if err != nil {
				return "", err
			}
			return fmt.Sprint(lib.BindingsSet(qr.Bss)), nil
		}},
		{"SetParents([P])", true, true, false, func(ctx *core.Context, loc *core.Location) (string, error) {
			return loc.SetParents(ctx, []string{"P"})
		}},
		{"Clear", true, true, false, func(ctx *core.Context, loc *core.Location) (string, error) { return "", loc.Clear(ctx) }},
		{"Delete", true, true, false, func(ctx *core.Context, loc *core.Location) (string, error) { return "", loc.Delete(ctx) }},
		{"StateSize", false, false, true, func(ctx *core.Context, loc *core.Location) (string, error) {
			n, err := loc.StateSize(ctx)
			return fmt.Sprint(n), err
		}},
		{"RunJavascript(Env.AddFact)", true, true, false, jsRun(`Env.AddFact('js1',{j:1})`)},
		{"RunJavascript(Env.RemFact)", true, true, false, jsRun(`Env.RemFact('f1')`)},
		{"RunJavascript(Env.AddRule)", true, true, false, jsRun(`Env.AddRule('jr',{when:{pattern:{q:'?q'}},action:{code:'1'}})`)},
		{"RunJavascript(Env.RemRule)", true, true, false, jsRun(`Env.RemRule('r1')`)},
		{"RunJavascript(Env.Search)", false, false, true, jsRun(`Env.Search({k:'?v'})`)},
		{"RunJavascript(Env.Query)", false, false, true, jsRun(`Env.Query({pattern:{k:'?v'}})`)},
		{"RunJavascript(Env.ProcessEvent)", false, false, true, jsRun(`Env.ProcessEvent({e:'1'})`)},
	}
}

var c19Setups = []struct {
	Name string
	Do   func(ctx *core.Context, loc *core.Location)
}{
	{"rich(f1,r1,writer,remover)", func(ctx *core.Context, loc *core.Location) {
		must2(loc.AddFact(ctx, "f1", core.Map{"k": "v1"}))
		must2(loc.AddRule(ctx, "r1", core.Map(lib.JM(c19Rule))))
		must2(loc.AddRule(ctx, "rw", core.Map(lib.JM(c19Writer))))
		must2(loc.AddRule(ctx, "rx", core.Map(lib.JM(c19Remover))))
	}},
	{"facts-only(f1)", func(ctx *core.Context, loc *core.Location) {
		must2(loc.AddFact(ctx, "f1", core.Map{"k": "v1"}))
	}},
	{"after-remove(f1 added+removed, r1)", func(ctx *core.Context, loc *core.Location) {
		must2(loc.AddFact(ctx, "f1", core.Map{"k": "v1"}))
		must2(loc.RemFact(ctx, "f1"))
		must2(loc.AddRule(ctx, "r1", core.Map(lib.JM(c19Rule))))
		must2(loc.AddRule(ctx, "rw", core.Map(lib.JM(c19Writer))))
	}},
	{"empty", func(ctx *core.Context, loc *core.Location) {}},
}

func must2(_ string, err error) {
	if err != nil {
		panic(err)
	}
}

type c19case struct {
	Kind   string    `json:"state"`
	Driver string    `json:"driver"`
	Setup  int       `json:"setup"`
	Prot   c19prot   `json:"protection"`
	Caller c19caller `json:"caller"`
	Op     string    `json:"op"`
}

type c19env struct {
	ctx   *core.Context // privileged, keyless set-up context
	store *core.MemStorage
	loc   *core.Location
}

func c19Build(kind, driver string, setup int, p c19prot) *c19env {
	e := &c19env{ctx: lib.Ctx()}
	e.store = lib.MemStore(e.ctx)
	if driver == "sys" {
		sw := newSysWorld(kind, sysOpts{TTL: sys.Forever, Store: e.store})
		loc, err := sw.sys.GetLocation(e.ctx, "L")
		if err != nil {
			panic(err)
		}
		e.loc = loc
	} else {
		e.loc = lib.MustLoc(e.ctx, kind, "L", e.store)
		ploc := lib.MustLoc(e.ctx, kind, "P", e.store)
		prov := core.NewSimpleLocationProvider(map[string]*core.Location{"L": e.loc, "P": ploc})
		e.loc.Provider, ploc.Provider = prov, prov
	}
	c19Setups[setup].Do(e.ctx, e.loc)
	if p.WriteKey {
		if err := e.loc.SetProp(e.ctx, "", "writeKey", "wk"); err != nil {
			panic(err)
		}
	}
	if p.ReadKey {
		if err := e.loc.SetProp(e.ctx, "", "readKey", "rk"); err != nil {
			panic(err)
		}
	}
	if p.ReadOnly {
		e.loc.SetReadOnly(e.ctx, true)
	}
	if p.Disabled {
		if err := e.loc.SetProp(e.ctx, "", "enabled", "false"); err != nil {
			panic(err)
		}
	}
	return e
}

func (e *c19env) snapshot() string {
	return stripCached(core.VerifDumpJSON(e.loc.VerifState()) + "|" + lib.Canon(lib.Pairs(e.ctx, e.store, "L")))
}

// userFacts: the non-property facts and rules (comparison with the unprotected twin).
func (e *c19env) userFacts() string {
	var xs []string
	for id, v := range lib.Pairs(e.ctx, e.store, "L") {
		if strings.HasPrefix(id, "!") {
			continue
		}
		xs = append(xs, id+"="+v)
	}
	sort.Strings(xs)
	return strings.Join(xs, "\n")
}

func c19Ctx(c c19caller) *core.Context {
	ctx := lib.Ctx()
	switch c.W {
	case "wrong":
		ctx.WriteKey = "nope"
	case "right":
		ctx.WriteKey = "wk"
	}
	switch c.R {
	case "wrong":
		ctx.ReadKey = "nope"
	case "right":
		ctx.ReadKey = "rk"
	}
	if c.Sub {
		ctx = ctx.SubContext()
	}
	return ctx
}

func c19Check(w *lib.Worker, c c19case, op c19op) {
	e := c19Build(c.Kind, c.Driver, c.Setup, c.Prot)
	before := e.snapshot()
	res, err := op.Run(c19Ctx(c.Caller), e.loc)
	after := e.snapshot()
	w.Eval(1)
	w.AddTrans(1)
	writeAuth := !c.Prot.Disabled && !c.Prot.ReadOnly && (!c.Prot.WriteKey || c.Caller.W == "right")
	readAuth := !c.Prot.Disabled && (!c.Prot.ReadKey || c.Caller.R == "right")
	tag := fmt.Sprintf("[%s/%s setup=%s protection=%s caller=%s] %s", c.Driver, c.Kind, c19Setups[c.Setup].Name, c.Prot, c.Caller, op.Name)
	opSig := strings.SplitN(op.Name, "(", 2)[0]
	if strings.HasPrefix(op.Name, "RunJavascript(") || strings.HasPrefix(op.Name, "ProcessEvent(") {
		opSig = strings.NewReplacer("(", "-", ")", "", " ", "-").Replace(op.Name)
	}
	report := func(sig, msg string, exp, obs interface{}) {
		w.Violation(lib.Violation{Scenario: "access", Signature: "C19/" + sig, Summary: tag + ": " + msg, Replay: c, Expected: exp, Observed: obs})
	}
	ok := true
	if op.Mutates && !writeAuth {
		if before != after {
			ok = false
			report("mutation-without-write-authority/"+opSig, "changed state or storage although the caller has no write authority", "unchanged", "changed")
		} else if op.MustErr && err == nil && !(op.Reveals && !readAuth) {
			ok = false
			report("refused-mutation-reported-as-success/"+opSig, fmt.Sprintf("returned success (%q) although the caller has no write authority", res), "error", "nil")
		}
	}
	if op.Reveals && !readAuth {
		if err == nil && res != "" && res != "[]" && res != "[] []" {
			ok = false
			report("data-revealed-without-read-authority/"+opSig, fmt.Sprintf("returned %q although the caller has no read authority", res), "error", res)
		} else if err == nil && !(op.Name == "ListRules") && !strings.HasPrefix(op.Name, "ProcessEvent(") {
			// an empty answer without an error misreports "no data" for "not allowed"
			if c.Setup == 0 {
				ok = false
				report("read-refusal-reported-as-empty-success/"+opSig, "returned an empty result and no error although the caller has no read authority", "error", "ok, empty")
			}
		}
	}
	if c.Prot.Disabled && err == nil && (op.Mutates || op.Reveals) && op.MustErr {
		ok = false
		report("disabled-location-operation-succeeded/"+opSig, "succeeded in a disabled location", "error", "nil")
	}
	full := (!op.Mutates || writeAuth) && (!op.Reveals || readAuth) && !c.Prot.Disabled
	if full && op.Name != "StateSize" { // the count includes the protection property facts themselves
		// identical to the unprotected location
		t := c19Build(c.Kind, c.Driver, c.Setup, c19prot{})
		tres, terr := op.Run(lib.Ctx(), t.loc)
		if (terr == nil) != (err == nil) || (terr == nil && tres != res) || t.userFacts() != e.userFacts() {
			ok = false
			report("authorised-call-differs-from-unprotected-location/"+opSig, fmt.Sprintf("returned (%q, %v) and left %q; the unprotected location returns (%q, %v) and %q", res, err, e.userFacts(), tres, terr, t.userFacts()), tres, res)
		}
	}
	if ok && (c.Prot != c19prot{}) {
		w.Nontrivial(fmt.Sprintf("%s|%s|%d|%v|%v|%s|%v", c.Driver, c.Kind, c.Setup, c.Prot, c.Caller, op.Name, err == nil))
	}
}

// ---- the inherited path: a protected PARENT reached through an unprotected child ----

type c19inhCase struct {
	Kind   string    `json:"state"`
	Driver string    `json:"driver"`
	Prot   c19prot   `json:"parent_protection"`
	Caller c19caller `json:"caller"`
	Op     string    `json:"inherited_op"`
}

func c19BuildInherited(kind, driver string, p c19prot) (child, parent *core.Location) {
	ctx := lib.Ctx()
	store := lib.MemStore(ctx)
	if driver == "sys" {
		sw := newSysWorld(kind, sysOpts{TTL: sys.Forever, Store: store})
		var err error
		if parent, err = sw.sys.GetLocation(ctx, "P"); err != nil {
			panic(err)
		}
		if child, err = sw.sys.GetLocation(ctx, "C"); err != nil {
			panic(err)
		}
	} else {
		child = lib.MustLoc(ctx, kind, "C", store)
		parent = lib.MustLoc(ctx, kind, "P", store)
		prov := core.NewSimpleLocationProvider(map[string]*core.Location{"C": child, "P": parent})
		child.Provider, parent.Provider = prov, prov
	}
	must2(parent.AddFact(ctx, "pf", core.Map(lib.JM(`{"k":"parent-secret"}`))))
	must2(parent.AddRule(ctx, "pr", core.Map(lib.JM(`{"when":{"pattern":{"e":"?e"}},"action":{"code":"'parent-rule-fired'"}}`))))
	must2(child.AddFact(ctx, "cf", core.Map(lib.JM(`{"k":"child-fact"}`))))
	must2(child.SetParents(ctx, []string{"P"}))
	set := func(prop, val string) {
		if err := parent.SetProp(ctx, "", prop, val); err != nil {
			panic(err)
		}
	}
	if p.WriteKey {
		set("writeKey", "wk")
	}
	if p.ReadKey {
		set("readKey", "rk")
	}
	if p.ReadOnly {
		parent.SetReadOnly(ctx, true)
	}
	if p.Disabled {
		set("enabled", "false")
	}
	return child, parent
}

func c19InheritedOps() []c19op {
	return []c19op{
		{Name: "SearchFacts(inherited)", Reveals: true, Run: func(ctx *core.Context, loc *core.Location) (string, error) {
			sr, err := loc.SearchFacts(ctx, core.Map(lib.JM(`{"k":"?v"}`)), true)
			if err != nil {
				return "", err
			}
			return fmt.Sprint(foundList(sr)), nil
		}},
		{Name: "Query(pattern)", Reveals: true, Run: func(ctx *core.Context, loc *core.Location) (string, error) {
			qr, err := loc.Query(ctx, `{"pattern":{"k":"?v"}}`)
			if err != nil {
				return "", err
			}
			return fmt.Sprint(lib.BindingsSetN(qr.Bss)), nil
		}},
		{Name: "ListRules(inherited)", Reveals: true, Run: func(ctx *core.Context, loc *core.Location) (string, error) {
			ids, err := loc.ListRules(ctx, true)
			sort.Strings(ids)
			return fmt.Sprint(ids), err
		}},
		{Name: "SearchRules(inherited)", Reveals: true, Run: func(ctx *core.Context, loc *core.Location) (string, error) {
			rs, err := loc.SearchRules(ctx, core.Map(lib.JM(`{"e":"1"}`)), true)
			if err != nil {
				return "", err
			}
			var ids []string
			for id := range rs {
				ids = append(ids, id)
			}
			sort.Strings(ids)
			return fmt.Sprint(ids), nil
		}},
		{Name: "ProcessEvent", Reveals: true, Run: func(ctx *core.Context, loc *core.Location) (string, error) {
			fr, cond := loc.ProcessEvent(ctx, core.Map(lib.JM(`{"e":"1"}`)))
			v, r := frValues(fr)
			if cond != nil {
				return fmt.Sprint(v, r), cond
			}
			return fmt.Sprint(v, r), nil
		}},
		{Name: "RunJavascript(Env.Search)", Reveals: true, Run: jsRun(`Env.Search({k:'?v'})`)},
		{Name: "RunJavascript(Env.Query)", Reveals: true, Run: jsRun(`Env.Query({pattern:{k:'?v'}})`)},
	}
}

// c19CheckInherited: the parent's protection must hold when its data is reached
// through a child that inherits from it.
func c19CheckInherited(w *lib.Worker, c c19inhCase, op c19op) {
	child, _ := c19BuildInherited(c.Kind, c.Driver, c.Prot)
	res, err := op.Run(c19Ctx(c.Caller), child)
	w.Eval(1)
	w.AddTrans(1)
	readAuth := !c.Prot.Disabled && (!c.Prot.ReadKey || c.Caller.R == "right")
	tag := fmt.Sprintf("[%s/%s child C of parent P, parent protection=%s caller=%s] %s on C", c.Driver, c.Kind, c.Prot, c.Caller, op.Name)
	opSig := strings.NewReplacer("(", "-", ")", "", " ", "-", ".", "-").Replace(op.Name)
	reveals := strings.Contains(res, "parent-secret") || strings.Contains(res, "parent-rule-fired") || strings.Contains(res, "pr") || strings.Contains(res, "pf")
	if !readAuth {
		if reveals {
			w.Violation(lib.Violation{Scenario: "access-inherited", Signature: "C19/parent-data-revealed-through-child-without-read-authority/" + opSig,
				Summary: tag + fmt.Sprintf(": returned %q (err %v) although the caller has no read authority over P", res, err), Replay: c, Expected: "no data of P", Observed: res})
			return
		}
		w.Nontrivial(fmt.Sprintf("inh|%s|%s|%v|%v|%s|%v", c.Driver, c.Kind, c.Prot, c.Caller, op.Name, err == nil))
		return
	}
	tchild, _ := c19BuildInherited(c.Kind, c.Driver, c19prot{})
	tres, terr := op.Run(lib.Ctx(), tchild)
	if (terr == nil) != (err == nil) || tres != res {
		w.Violation(lib.Violation{Scenario: "access-inherited", Signature: "C19/authorised-inherited-call-differs-from-unprotected-parent/" + opSig,
			Summary: tag + fmt.Sprintf(": returned (%q, %v); with an unprotected parent it returns (%q, %v)", res, err, tres, terr), Replay: c, Expected: tres, Observed: res})
		return
	}
	if (c.Prot != c19prot{}) {
		w.Nontrivial(fmt.Sprintf("inh|%s|%s|%v|%v|%s|ok", c.Driver, c.Kind, c.Prot, c.Caller, op.Name))
	}
}

func c19Run(w *lib.Worker) {
	ops := c19Ops()
	var prots []c19prot
	for m := 0; m < 16; m++ {
		prots = append(prots, c19prot{m&1 != 0, m&2 != 0, m&4 != 0, m&8 != 0})
	}
	var callers []c19caller
	for _, wk := range []string{"", "wrong", "right"} {
		for _, rk := range []string{"", "wrong", "right"} {
			callers = append(callers, c19caller{wk, rk, false})
		}
	}
	callers = append(callers, c19caller{"right", "right", true}, c19caller{"", "", true}, c19caller{"wrong", "right", true}, c19caller{"right", "wrong", true})
	n := 0
	for _, driver := range []string{"core", "sys"} {
		for _, kind := range []string{"indexed", "linear"} {
			for _, p := range prots {
				for _, c := range callers {
					n++
					if !w.Mine(n) {
						continue
					}
					w.AddStates(1)
					for _, op := range c19InheritedOps() {
						c19CheckInherited(w, c19inhCase{kind, driver, p, c, op.Name}, op)
					}
					w.AddTraces(1)
				}
			}
		}
	}
	for _, driver := range []string{"core", "sys"} {
		for _, kind := range []string{"indexed", "linear"} {
			for si := range c19Setups {
				for _, p := range prots {
					for _, c := range callers {
						n++
						if !w.Mine(n) {
							continue
						}
						w.AddStates(1)
						for _, op := range ops {
							c19Check(w, c19case{kind, driver, si, p, c, op.Name}, op)
						}
						w.AddTraces(1)
						if n%701 == 0 {
							w.Sample(c19case{kind, driver, si, p, c, "(all operations)"})
						}
					}
				}
			}
		}
	}
}

func init() {
	lib.Register(&lib.Check{
		ID:    "C19",
		Level: "model_checking",
		Rule: "exhaustive product: 16 protection states (write key x read key x read-only x disabled) x 13 caller contexts (no/wrong/right write key x no/wrong/right read key, plus SubContexts) x 30 operations (whole Location API, Env.* location functions from RunJavascript, events whose rule actions mutate) x 4 set-up histories x {indexed, linear} x {core.Location, location obtained from sys.System}; oracle from the statement with a privileged before/after snapshot and an unprotected twin; " +
			"states = (driver, state, set-up, protection, caller) tuples, transitions = operations executed; non-trivial = distinct protected cases whose outcome matched",
		Assumptions: []string{
			"classification of operations as mutating / revealing as argued at the top of c19.go; RuleEnabled and GetParents are unclassified",
			"ListRules reports a refused search as an empty list (its documented swallow of the search error) — accepted as a refusal",
		},
		Budget: func(tier string) time.Duration { return 10 * time.Minute },
		Run:    c19Run,
		ReplayFn: func(w *lib.Worker, raw json.RawMessage) {
			var ic c19inhCase
			if json.Unmarshal(raw, &ic) == nil && ic.Op != "" {
				for _, op := range c19InheritedOps() {
					if op.Name == ic.Op {
						c19CheckInherited(w, ic, op)
					}
				}
				return
			}
			var c c19case
			if err := json.Unmarshal(raw, &c); err != nil {
				panic(err)
			}
			for _, op := range c19Ops() {
				if op.Name == c.Op {
					c19Check(w, c, op)
				}
			}
		},
	})
	_ = time.Second
}
