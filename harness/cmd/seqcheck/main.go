// seqcheck: sequential engines (SEQ / GEN / FAULT) — one sub-check per property.
// Built against the level-1 overlay (virtual clock + owned map order).
package main

import "verifharness/lib"

func main() { lib.Main() }
