package main

// World: one API over several named locations, implemented (a) directly on
// core.Location objects wired through core.SimpleLocationProvider and (b)
// through sys.System (cache, storage injection, harness cron).  Checks that
// quantify over "through core.LocationProvider and through sys.System" drive
// both with the same alphabet.

import (
	"encoding/json"
	"fmt"
	"sort"
	"strings"
	"time"

	"github.com/Comcast/rulio/core"
	"github.com/Comcast/rulio/sys"
	"verifharness/lib"
)

type World interface {
	Name() string
	AddFact(loc, id string, fact map[string]interface{}) (string, error)
	RemFact(loc, id string) error
	GetFact(loc, id string) (string, error)
	AddRule(loc, id string, rule map[string]interface{}) error
	RemRule(loc, id string) error
	SetParents(loc string, ps []string) error
	GetParents(loc string) ([]string, error)
	SearchFacts(loc string, pattern map[string]interface{}, inherited bool) ([]string, error)
	SearchRules(loc string, event map[string]interface{}, inherited bool) ([]string, error)
	ProcessEvent(loc string, event map[string]interface{}) (values []string, rules []string, err error)
	Query(loc string, q map[string]interface{}) ([]string, error)
	Clear(loc string) error
	Snapshot(loc string) string
	KeySnapshot(loc string) string
	Close()
}

func foundList(sr *core.SearchResults) []string {
	var out []string
	for _, f := range sr.Found {
		out = append(out, f.Id+"="+strings.Join(lib.BindingsSetN(f.Bindingss), ";"))
	}
	sort.Strings(out)
	return out
}

func frValues(fr *core.FindRules) (vals, rules []string) {
	if fr == nil {
		return nil, nil
	}
	for _, v := range fr.Values {
		vals = append(vals, lib.Canon(v))
	}
	sort.Strings(vals)
	for _, ch := range fr.Children {
		rules = append(rules, ch.Rule.Id)
	}
	sort.Strings(rules)
	return
}

// ---- core world -------------------------------------------------------------

type coreWorld struct {
	kind  string
	ctx   *core.Context
	store core.Storage
	locs  map[string]*core.Location
}

func newCoreWorld(kind string, names []string, store core.Storage) *coreWorld {
	w := &coreWorld{kind: kind, ctx: lib.Ctx(), store: store, locs: map[string]*core.Location{}}
	if w.store == nil {
		w.store = lib.MemStore(w.ctx)
	}
	prov := core.NewSimpleLocationProvider(w.locs)
	for _, n := range names {
		l := lib.MustLoc(w.ctx, kind, n, w.store)
		l.Provider = prov
		w.locs[n] = l
	}
	return w
}

func (w *coreWorld) Name() string { return "core/" + w.kind }
func (w *coreWorld) Close()       {}
func (w *coreWorld) AddFact(loc, id string, fact map[string]interface{}) (string, error) {
	return w.locs[loc].AddFact(w.ctx, id, core.Map(lib.CopyMap(fact)))
}
func (w *coreWorld) RemFact(loc, id string) error {
	_, err := w.locs[loc].RemFact(w.ctx, id)
	return err
}
func (w *coreWorld) GetFact(loc, id string) (string, error) {
	m, err := w.locs[loc].GetFact(w.ctx, id)
	if err != nil {
		return "", err
	}
	return lib.Canon(map[string]interface{}(m)), nil
}
func (w *coreWorld) AddRule(loc, id string, rule map[string]interface{}) error {
	_, err := w.locs[loc].AddRule(w.ctx, id, core.Map(lib.CopyMap(rule)))
	return err
}
func (w *coreWorld) RemRule(loc, id string) error {
	_, err := w.locs[loc].RemRule(w.ctx, id)
	return err
}
func (w *coreWorld) SetParents(loc string, ps []string) error {
	_, err := w.locs[loc].SetParents(w.ctx, ps)
	return err
}
func (w *coreWorld) GetParents(loc string) ([]string, error) { return w.locs[loc].GetParents(w.ctx) }
func (w *coreWorld) SearchFacts(loc string, p map[string]interface{}, inh bool) ([]string, error) {
	sr, err := w.locs[loc].SearchFacts(w.ctx, core.Map(lib.CopyMap(p)), inh)
	if err != nil {
		return nil, err
	}
	return foundList(sr), nil
}
func (w *coreWorld) SearchRules(loc string, e map[string]interface{}, inh bool) ([]string, error) {
	rs, err := w.locs[loc].SearchRules(w.ctx, core.Map(lib.CopyMap(e)), inh)
	if err != nil {
		return nil, err
	}
	return lib.SortedKeys(rs), nil
}
func (w *coreWorld) ProcessEvent(loc string, e map[string]interface{}) ([]string, []string, error) {
	fr, cond := w.locs[loc].ProcessEvent(w.ctx, core.Map(lib.CopyMap(e)))
	v, r := frValues(fr)
	if cond != nil {
		return v, r, cond
	}
	return v, r, nil
}
func (w *coreWorld) Query(loc string, q map[string]interface{}) ([]string, error) {
	qr, err := w.locs[loc].Query(w.ctx, lib.Canon(q))
	if err != nil {
		return nil, err
	}
	return lib.BindingsSetN(qr.Bss), nil
}
func (w *coreWorld) Clear(loc string) error { return w.locs[loc].Clear(w.ctx) }
func (w *coreWorld) KeySnapshot(loc string) string {
	return core.VerifKeyJSON(w.locs[loc].VerifState()) + "|" + lib.Canon(lib.Pairs(w.ctx, w.store, loc))
}
func (w *coreWorld) Snapshot(loc string) string {
	return core.VerifDumpJSON(w.locs[loc].VerifState()) + "|" + lib.Canon(lib.Pairs(w.ctx, w.store, loc))
}

// ---- System world -----------------------------------------------------------

type sysWorld struct {
	kind  string
	ctx   *core.Context
	store core.Storage
	sys   *sys.System
	cron  *lib.RecCron
}

type sysOpts struct {
	TTL            time.Duration
	CheckExistence bool
	Store          core.Storage
}

func newSysWorld(kind string, o sysOpts) *sysWorld {
	w := &sysWorld{kind: kind, ctx: lib.Ctx(), store: o.Store}
	if w.store == nil {
		w.store = lib.MemStore(w.ctx)
	}
	conf := sys.SystemConfig{Storage: "memory", UnindexedState: kind == "linear", CheckExistence: o.CheckExistence}
	cont := sys.SystemControl{LocationTTL: o.TTL, DefaultLocControl: lib.QuietControl(), CachePending: true}
	w.cron = lib.NewRecCron(true)
	s, err := sys.NewSystem(w.ctx, conf, cont, w.cron)
	if err != nil {
		panic(err)
	}
	s.VerifSetStorage(w.store)
	w.sys = s
	w.cron.Resolve = func(ctx *core.Context, name string) (*core.Location, error) { return s.GetLocation(ctx, name) }
	return w
}

func (w *sysWorld) Name() string { return "sys/" + w.kind }
func (w *sysWorld) Close()       {}
func (w *sysWorld) AddFact(loc, id string, fact map[string]interface{}) (string, error) {
	return w.sys.AddFact(w.ctx, loc, id, lib.Canon(fact))
}
func (w *sysWorld) RemFact(loc, id string) error {
	_, err := w.sys.RemFact(w.ctx, loc, id)
	return err
}
func (w *sysWorld) GetFact(loc, id string) (string, error) {
	js, err := w.sys.GetFact(w.ctx, loc, id)
	if err != nil {
		return "", err
	}
	var x interface{}
	json.Unmarshal([]byte(js), &x)
	return lib.Canon(x), nil
}
func (w *sysWorld) AddRule(loc, id string, rule map[string]interface{}) error {
	_, err := w.sys.AddRule(w.ctx, loc, id, lib.Canon(rule))
	return err
}
func (w *sysWorld) RemRule(loc, id string) error {
	_, err := w.sys.RemRule(w.ctx, loc, id)
	return err
}
func (w *sysWorld) SetParents(loc string, ps []string) error {
	_, err := w.sys.SetParents(w.ctx, loc, ps)
	return err
}
func (w *sysWorld) GetParents(loc string) ([]string, error) { return w.sys.GetParents(w.ctx, loc) }
func (w *sysWorld) SearchFacts(loc string, p map[string]interface{}, inh bool) ([]string, error) {
	sr, err := w.sys.SearchFacts(w.ctx, loc, lib.Canon(p), inh)
	if err != nil {
		return nil, err
	}
	return foundList(sr), nil
}
func (w *sysWorld) SearchRules(loc string, e map[string]interface{}, inh bool) ([]string, error) {
	rs, err := w.sys.SearchRules(w.ctx, loc, lib.Canon(e), inh)
	if err != nil {
		return nil, err
	}
	return lib.SortedKeys(rs), nil
}
func (w *sysWorld) ProcessEvent(loc string, e map[string]interface{}) ([]string, []string, error) {
	fr, err := w.sys.ProcessEvent(w.ctx, loc, lib.Canon(e))
	v, r := frValues(fr)
	return v, r, err
}
func (w *sysWorld) Query(loc string, q map[string]interface{}) ([]string, error) {
	qr, err := w.sys.Query(w.ctx, loc, lib.Canon(q))
	if err != nil {
		return nil, err
	}
	return lib.BindingsSetN(qr.Bss), nil
}
func (w *sysWorld) Clear(loc string) error { return w.sys.ClearLocation(w.ctx, loc) }
// KeySnapshot is Snapshot for deduplication keys (includes hidden plain fields).
func (w *sysWorld) KeySnapshot(loc string) string {
	mem := "(not cached)"
	if l := w.sys.VerifCachedLocation(loc); l != nil {
		mem = core.VerifKeyJSON(l.VerifState())
	}
	return mem + "|" + lib.Canon(lib.Pairs(w.ctx, w.store, loc))
}

func (w *sysWorld) Snapshot(loc string) string {
	mem := "(not cached)"
	if l := w.sys.VerifCachedLocation(loc); l != nil {
		mem = core.VerifDumpJSON(l.VerifState())
	}
	return mem + "|" + lib.Canon(lib.Pairs(w.ctx, w.store, loc))
}

func errText(err error) string {
	if err == nil {
		return "ok"
	}
	return fmt.Sprintf("error(%s)", lib.ErrClass(err))
}
