package main

// C03 — condition queries follow and/or/not/pattern/code semantics.
//
// Engine GEN: all query trees up to a depth/arity bound over a fixed leaf set
// (patterns sharing variables, code templates whose value the reference can
// compute natively, the empty query) x every subset of a 4-fact universe x
// {all facts local, facts split between the location and its parent}.  Each
// tree is evaluated by Location.Query and, wrapped as a rule `condition`, by
// ProcessEvent; both are compared as MULTISETS of bindings with refQuery, a
// small evaluator written from the property statement.

import (
	"encoding/json"
	"fmt"
	"sort"
	"strings"
	"time"

	"github.com/Comcast/rulio/core"
	"verifharness/lib"
)

// the fifth fact differs from the first only in the JSON type of its value (the
// string "1"): two incoming bindings of ?x that print alike must stay apart
var c03Facts = []string{`{"a":1}`, `{"a":2}`, `{"b":1}`, `{"a":1,"b":2}`, `{"a":"1"}`}

// leaf queries
var c03Leaves = []string{
	`{}`,
	`{"pattern":{"a":"?x"}}`,
	`{"pattern":{"b":"?x"}}`,
	`{"pattern":{"a":"?y"}}`,
	`{"pattern":{"a":1}}`,
	`{"code":"true"}`,
	`{"code":"false"}`,
	`{"code":"null"}`,
	`{"code":"0"}`,
	`{"code":"x==1"}`,
	`{"code":"({z:1})"}`,
	`{"code":"({x:2})"}`,
}

type refB = map[string]interface{}

var errRef = fmt.Errorf("reference: script error")

// refCode evaluates one of the code templates natively.
func refCode(code string, b refB) (keep bool, merged refB, err error) {
	switch code {
	case "true", "0":
		return true, b, nil
	case "false", "null":
		return false, nil, nil
	case "x==1":
		v, ok := b["?x"]
		if !ok {
			return false, nil, errRef // ReferenceError: x is not defined
		}
		f, isNum := v.(float64)
		str, isStr := v.(string) // JavaScript's == converts: "1"==1 holds
		return (isNum && f == 1) || (isStr && str == "1"), b, nil
	case "({z:1})", "({x:2})":
		m := refB{}
		for k, v := range b {
			m[k] = v
		}
		if code == "({z:1})" {
			m["?z"] = 1.0
		} else {
			m["?x"] = 2.0
		}
		return true, m, nil
	}
	panic("unknown code template " + code)
}

// refQuery: the semantics of the property statement.
func refQuery(q map[string]interface{}, facts []map[string]interface{}, in []refB) ([]refB, error) {
	if len(q) == 0 {
		return in, nil
	}
	if c, ok := q["code"]; ok {
		var out []refB
		for _, b := range in {
			keep, m, err := refCode(c.(string), b)
			if err != nil {
				return nil, err
			}
			if keep {
				out = append(out, m)
			}
		}
		return out, nil
	}
	if p, ok := q["pattern"]; ok {
		var out []refB
		for _, b := range in {
			bound := lib.RefSubst(p, b)
			for _, f := range facts {
				bss, err := core.Matches(nil, lib.DeepCopy(bound), lib.CopyMap(f))
				if err != nil {
					return nil, err
				}
				for _, m := range bss {
					e := refB{}
					for k, v := range b {
						e[k] = v
					}
					for k, v := range m {
						e[k] = v
					}
					out = append(out, e)
				}
			}
		}
		return out, nil
	}
	if xs, ok := q["and"]; ok {
		cur := in
		for _, x := range xs.([]interface{}) {
			r, err := refQuery(x.(map[string]interface{}), facts, cur)
			if err != nil {
				return nil, err
			}
			cur = r
		}
		return cur, nil
	}
	if xs, ok := q["or"]; ok {
		sc, _ := q["shortCircuit"].(bool)
		var out []refB
		for _, b := range in {
			for _, x := range xs.([]interface{}) {
				r, err := refQuery(x.(map[string]interface{}), facts, []refB{b})
				if err != nil {
					return nil, err
				}
				out = append(out, r...)
				if sc && len(r) > 0 {
					break
				}
			}
		}
		return out, nil
	}
	if x, ok := q["not"]; ok {
		var out []refB
		for _, b := range in {
			r, err := refQuery(x.(map[string]interface{}), facts, []refB{b})
			if err != nil {
				return nil, err
			}
			if len(r) == 0 {
				out = append(out, b)
			}
		}
		return out, nil
	}
	panic("refQuery: unknown query " + lib.Canon(q))
}

func c03Trees(tier string) []map[string]interface{} {
	leaves := make([]map[string]interface{}, len(c03Leaves))
	for i, s := range c03Leaves {
		leaves[i] = lib.JM(s)
	}
	mk := func(children []map[string]interface{}, inner bool) []map[string]interface{} {
		var out []map[string]interface{}
		arr := func(xs ...map[string]interface{}) []interface{} {
			a := make([]interface{}, len(xs))
			for i, x := range xs {
				a[i] = x
			}
			return a
		}
		var lists [][]interface{}
		lists = append(lists, arr())
		for _, a := range children {
			lists = append(lists, arr(a))
		}
		for _, a := range children {
			for _, b := range children {
				lists = append(lists, arr(a, b))
			}
		}
		for _, l := range lists {
			out = append(out, map[string]interface{}{"and": l})
			out = append(out, map[string]interface{}{"or": l})
			out = append(out, map[string]interface{}{"or": l, "shortCircuit": true})
		}
		for _, a := range children {
			out = append(out, map[string]interface{}{"not": a})
		}
		return out
	}
	trees := append([]map[string]interface{}{}, leaves...)
	d1 := mk(leaves, false)
	trees = append(trees, d1...)
	if tier != "thorough" {
		// nested operators (an operator directly under an operator) over a small pool:
		// every and/or/or+shortCircuit/not of arity 0..2 over {3 leaves + every
		// operator over those 3 leaves}
		// (two patterns binding ?x, one binding ?y - so that a disjunction can hand
		// bindings over DIFFERENT variable sets to the next conjunct - and a code test)
		tiny := []map[string]interface{}{leaves[1], leaves[2], leaves[3], leaves[9]}
		pool := append([]map[string]interface{}{}, tiny...)
		pool = append(pool, mk(tiny, true)...)
		trees = append(trees, mk(pool, true)...)
	}
	if tier == "thorough" {
		// depth 3: operators over a reduced pool of depth<=2 trees (every operator kind
		// over the most discriminating leaves), combined with all leaves
		small := []map[string]interface{}{leaves[1], leaves[2], leaves[4], leaves[9], leaves[11], leaves[6]}
		pool := append([]map[string]interface{}{}, small...)
		pool = append(pool, mk(small[:4], true)...)
		trees = append(trees, mk(pool, true)...)
	}
	seen := map[string]bool{}
	var out []map[string]interface{}
	for _, t := range trees {
		k := lib.Canon(t)
		if !seen[k] {
			seen[k] = true
			out = append(out, t)
		}
	}
	return out
}

func bMultiset(bs []refB) []string {
	out := make([]string, 0, len(bs))
	for _, b := range bs {
		out = append(out, lib.Canon(b))
	}
	sort.Strings(out)
	return out
}

type c03case struct {
	Query map[string]interface{} `json:"query"`
	Facts int                    `json:"facts_mask"`
	Split bool                   `json:"split_child_parent"`
	Kind  string                 `json:"state"`
}

func c03Setup(c c03case) (*core.Context, *core.Location, []map[string]interface{}) {
	ctx := lib.Ctx()
	store := lib.MemStore(ctx)
	loc := lib.MustLoc(ctx, c.Kind, "L", store)
	ploc := lib.MustLoc(ctx, c.Kind, "P", store)
	prov := core.NewSimpleLocationProvider(map[string]*core.Location{"L": loc, "P": ploc})
	loc.Provider, ploc.Provider = prov, prov
	if c.Split {
		if _, err := loc.SetParents(ctx, []string{"P"}); err != nil {
			panic(err)
		}
	}
	var facts []map[string]interface{}
	for i, f := range c03Facts {
		if c.Facts&(1<<uint(i)) == 0 {
			continue
		}
		m := lib.JM(f)
		facts = append(facts, m)
		target := loc
		if c.Split && i%2 == 0 {
			target = ploc
		}
		if _, err := target.AddFact(ctx, fmt.Sprintf("f%d", i), core.Map(lib.CopyMap(m))); err != nil {
			panic(err)
		}
	}
	return ctx, loc, facts
}

func c03Check(w *lib.Worker, c c03case, viaRule bool) {
	ctx, loc, facts := c03Setup(c)
	qtxt := lib.Canon(c.Query)
	exp, rerr := refQuery(c.Query, facts, []refB{{}})
	w.Eval(1)
	w.AddTrans(1)
	cfg := fmt.Sprintf("%s split=%v facts=%05b", c.Kind, c.Split, c.Facts)
	if !viaRule {
		qr, err := loc.Query(ctx, qtxt)
		switch {
		case rerr != nil && err == nil:
			w.Violation(lib.Violation{Scenario: "query", Signature: "C03/error-expected-but-result-returned",
				Summary: fmt.Sprintf("[%s] Query(%s) returned %v where a script must fail (unbound variable)", cfg, qtxt, lib.BindingsSet(qr.Bss)), Replay: c})
		case rerr == nil && err != nil:
			w.Violation(lib.Violation{Scenario: "query", Signature: "C03/unexpected-error",
				Summary: fmt.Sprintf("[%s] Query(%s) failed: %v; reference result %v", cfg, qtxt, err, bMultiset(exp)), Replay: c})
		case rerr == nil:
			got := lib.BindingsSet(qr.Bss) // sorted list with duplicates kept = multiset
			want := bMultiset(exp)
			if strings.Join(got, "\n") != strings.Join(want, "\n") {
				w.Violation(lib.Violation{Scenario: "query", Signature: c03Classify(c.Query, want, got),
					Summary: fmt.Sprintf("[%s] Query(%s) = %v; semantics give %v", cfg, qtxt, got, want),
					Replay:  c, Expected: want, Observed: got})
			} else if len(want) > 0 {
				w.Nontrivial(cfg + "|" + qtxt + "|" + strings.Join(want, ","))
			}
		}
		return
	}
	// as a rule condition
	rule := map[string]interface{}{
		"when":      map[string]interface{}{"pattern": map[string]interface{}{"e": "?e"}},
		"condition": lib.CopyMap(c.Query),
		"action":    map[string]interface{}{"code": "1"},
	}
	if len(c.Query) == 0 {
		delete(rule, "condition")
	}
	if _, err := loc.AddRule(ctx, "r", core.Map(rule)); err != nil {
		w.Violation(lib.Violation{Scenario: "condition", Signature: "C03/condition-rejected-by-addrule",
			Summary: fmt.Sprintf("AddRule with condition %s failed: %v", qtxt, err), Replay: c})
		return
	}
	fr, cond := loc.ProcessEvent(ctx, core.Map{"e": 7.0})
	var node *core.EvalRuleCondition
	if fr != nil && len(fr.Children) == 1 && len(fr.Children[0].Children) == 1 {
		node = fr.Children[0].Children[0]
	}
	if node == nil {
		w.Violation(lib.Violation{Scenario: "condition", Signature: "C03/condition-node-missing",
			Summary: fmt.Sprintf("[%s] ProcessEvent produced no EvalRuleCondition node for condition %s (cond=%v)", cfg, qtxt, cond), Replay: c})
		return
	}
	failed := node.Disposition != core.Complete
	switch {
	case rerr != nil && !failed:
		w.Violation(lib.Violation{Scenario: "condition", Signature: "C03/condition-error-expected-but-complete",
			Summary: fmt.Sprintf("[%s] condition %s completed although its script must fail", cfg, qtxt), Replay: c})
	case rerr == nil && failed:
		w.Violation(lib.Violation{Scenario: "condition", Signature: "C03/condition-unexpected-error",
			Summary: fmt.Sprintf("[%s] condition %s failed: %v", cfg, qtxt, node.Disposition), Replay: c})
	case rerr == nil:
		var gotB []core.Bindings
		for _, ch := range node.Children {
			b := core.Bindings{}
			for k, v := range ch.Bindings {
				if k == "?event" || k == "?location" || k == "?ruleId" || k == "?e" {
					continue
				}
				b[k] = v
			}
			gotB = append(gotB, b)
		}
		got := lib.BindingsSet(gotB)
		want := bMultiset(exp)
		if strings.Join(got, "\n") != strings.Join(want, "\n") {
			w.Violation(lib.Violation{Scenario: "condition", Signature: "C03/condition-" + strings.TrimPrefix(c03Classify(c.Query, want, got), "C03/"),
				Summary: fmt.Sprintf("[%s] rule condition %s gave action bindings %v; semantics give %v", cfg, qtxt, got, want),
				Replay:  c, Expected: want, Observed: got})
		}
	}
}

func c03Classify(q map[string]interface{}, want, got []string) string {
	missing, extra := diffSets(want, got)
	kind := "result-differs"
	switch {
	case len(missing) > 0 && len(extra) == 0:
		kind = "bindings-missing"
	case len(extra) > 0 && len(missing) == 0:
		kind = "bindings-extra"
	}
	top := "leaf"
	for _, k := range []string{"and", "or", "not", "pattern", "code"} {
		if _, ok := q[k]; ok {
			top = k
		}
	}
	return "C03/" + top + "/" + kind
}

func c03Run(w *lib.Worker) {
	trees := c03Trees(w.Tier)
	w.Note("query_trees", len(trees))
	for ti, t := range trees {
		if !w.Mine(ti) {
			continue
		}
		if w.TimeUp() {
			w.Cap("time budget reached in query-tree enumeration")
			return
		}
		w.AddStates(1)
		depth2 := ti < len(c03Leaves)+3*(1+len(c03Leaves)+len(c03Leaves)*len(c03Leaves))+len(c03Leaves)
		for mask := 0; mask < 32; mask++ {
			// fact sets with the fifth fact: all 16 for the small trees, two for the rest
			if mask >= 16 && !depth2 && mask != 21 && mask != 31 {
				continue
			}
			for _, split := range []bool{false, true} {
				for _, kind := range []string{"indexed", "linear"} {
					if kind == "linear" && mask%5 != 0 {
						continue // linear state: a third of the fact sets (same query code path)
					}
					c := c03case{t, mask, split, kind}
					c03Check(w, c, false)
					if depth2 && kind == "indexed" {
						c03Check(w, c, true)
					}
				}
			}
		}
		w.AddTraces(1)
		if ti%97 == 0 {
			w.Sample(map[string]interface{}{"query": t, "facts": c03Facts, "facts_mask": 11})
		}
	}
}

func init() {
	lib.Register(&lib.Check{
		ID:    "C03",
		Level: "model_checking",
		Rule: "bounded-exhaustive enumeration of query trees (12 leaves: empty, 4 patterns sharing ?x/?y, 7 code templates; and/or/or+shortCircuit with arity 0..2, not; depth 2 over 12 leaves plus depth 3 over a 4-leaf pool quick, depth 3 over a 6-leaf pool thorough) x all 16 subsets of a 4-fact universe (plus, with a fifth fact that differs from the first only in JSON type, all 32 subsets for the small trees and two for the rest) x {local, split child/parent} x state; each evaluated by Location.Query and (depth<=2) as a rule condition through ProcessEvent, compared as multisets with a reference evaluator; " +
			"states = query trees, transitions = query evaluations; non-trivial = distinct (configuration, query, non-empty result)",
		Assumptions: []string{
			"core.Matches defines fact matching (C05)",
			"code templates are chosen so that the reference can compute their JavaScript value natively",
		},
		Budget: func(tier string) time.Duration {
			if tier == "thorough" {
				return 30 * time.Minute
			}
			return 4 * time.Minute
		},
		Run: c03Run,
		ReplayFn: func(w *lib.Worker, raw json.RawMessage) {
			var c c03case
			if err := json.Unmarshal(raw, &c); err != nil {
				panic(err)
			}
			c03Check(w, c, false)
			c03Check(w, c, true)
		},
	})
}
