package lib

import (
	"encoding/json"
	"fmt"
	"sort"
	"strings"
)

// J parses JSON into a generic value (panics on bad literals: harness bug).
func J(s string) interface{} {
	var x interface{}
	if err := json.Unmarshal([]byte(s), &x); err != nil {
		panic(fmt.Sprintf("bad JSON literal %q: %v", s, err))
	}
	return x
}

// JM parses a JSON object.
func JM(s string) map[string]interface{} {
	m, ok := J(s).(map[string]interface{})
	if !ok {
		panic("not an object: " + s)
	}
	return m
}

// Canon renders any JSON-able value canonically (encoding/json sorts map keys).
func Canon(x interface{}) string {
	b, err := json.Marshal(x)
	if err != nil {
		return fmt.Sprintf("!marshal:%v:%#v", err, x)
	}
	return string(b)
}

// DeepCopy through JSON (keeps JSON types: float64, string, bool, nil, map, slice).
func DeepCopy(x interface{}) interface{} {
	b, err := json.Marshal(x)
	if err != nil {
		panic(err)
	}
	var y interface{}
	if err := json.Unmarshal(b, &y); err != nil {
		panic(err)
	}
	return y
}

func CopyMap(m map[string]interface{}) map[string]interface{} {
	if m == nil {
		return nil
	}
	return DeepCopy(m).(map[string]interface{})
}

// CanonSet renders a multiset of values as a sorted list of canonical strings.
func CanonSet(xs []string) string {
	ys := append([]string(nil), xs...)
	sort.Strings(ys)
	return "[" + strings.Join(ys, ",") + "]"
}

// SortedKeys of a string-keyed map.
func SortedKeys[V any](m map[string]V) []string {
	ks := make([]string, 0, len(m))
	for k := range m {
		ks = append(ks, k)
	}
	sort.Strings(ks)
	return ks
}

// Dedup returns sorted unique strings.
func Dedup(xs []string) []string {
	m := map[string]struct{}{}
	for _, x := range xs {
		m[x] = struct{}{}
	}
	return SortedKeys(m)
}

// DiffSets compares two multisets of strings.
func DiffSets(exp, got []string) (missing, extra []string) {
	e := map[string]int{}
	for _, x := range exp {
		e[x]++
	}
	for _, x := range got {
		if e[x] > 0 {
			e[x]--
		} else {
			extra = append(extra, x)
		}
	}
	for x, n := range e {
		for i := 0; i < n; i++ {
			missing = append(missing, x)
		}
	}
	sort.Strings(missing)
	return
}
