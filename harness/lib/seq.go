package lib

import (
	"crypto/sha256"
	"encoding/json"
	"fmt"
)

// Engine SEQ: explicit-state breadth-first search over operation sequences of
// the REAL implementation.  Live rulio objects cannot be cloned, so a
// successor is produced by replaying the path on a fresh instance and applying
// one more operation.  States are deduplicated on a canonical key that
// includes the implementation's private state (see inject/core), so merged
// states really have the same futures.

// Instance is one fresh implementation+model pair.
type Instance interface {
	// Apply runs operation op on implementation and model and compares the
	// step's observations.  A non-nil result is a property violation.
	Apply(op int) *Violation
	// Key is the canonical state (model + private implementation state + clock).
	Key() string
	// Battery runs the state invariants / probes (may have side effects: the
	// instance is thrown away afterwards) and returns every violation found.
	Battery() []*Violation
	Close()
}

type Scenario struct {
	Name     string
	Ops      []string // printable operations; index = op id
	Fresh    func() Instance
	MaxDepth int
	// Nontrivial, when set, is told each executed step and returns a key when
	// the step is a non-trivial case worth counting ("" otherwise).
	NoBattery bool
	// Enabled filters ops per path (nil = all).
	Enabled func(path []int, op int) bool
}

type seqReplay struct {
	Scenario string   `json:"scenario"`
	Path     []int    `json:"path"`
	OpsText  []string `json:"ops"`
}

func (sc *Scenario) pathText(p []int) []string {
	t := make([]string, len(p))
	for i, o := range p {
		t[i] = sc.Ops[o]
	}
	return t
}

// runPath replays path on a fresh instance.  It returns the instance (caller
// closes), and the violation found at the LAST step or by the battery.
// A violation at an earlier step is returned with early=true.
func (sc *Scenario) runPath(path []int, battery bool) (inst Instance, vs []*Violation, early bool) {
	inst, vs, early, _ = sc.runPathKey(path, battery)
	return
}

// runPathKey is runPath that also returns the canonical key of the state the
// path reaches, taken BEFORE the battery runs: the battery may have side effects
// (a read can purge an expired item), and a key taken after it would merge the
// state with the one an explicit observing operation leads to - whose successors
// would then never be explored.
func (sc *Scenario) runPathKey(path []int, battery bool) (inst Instance, vs []*Violation, early bool, key string) {
	inst = sc.Fresh()
	for i, op := range path {
		if vv := inst.Apply(op); vv != nil {
			if i < len(path)-1 {
				if vv.Fatal || vv.Prune {
					return inst, []*Violation{vv}, true, ""
				}
				continue // observation-only violation at a prefix: already reported there
			}
			vs = append(vs, vv)
			if vv.Fatal || vv.Prune {
				return inst, vs, false, ""
			}
		}
	}
	key = inst.Key()
	if battery && !sc.NoBattery {
		vs = append(vs, inst.Battery()...)
	}
	return inst, vs, false, key
}

func sigList(vs []*Violation) string {
	s := ""
	for _, v := range vs {
		if v.Prune {
			continue
		}
		s += v.Signature + "\n"
	}
	return s
}

// BFS explores sc to its depth bound (or until the frontier empties); the
// depth-1 operations are partitioned over the worker shards.
func (w *Worker) BFS(sc *Scenario) { w.bfs(sc, true) }

// BFSAll explores the whole scenario in this worker (callers shard by scenario).
func (w *Worker) BFSAll(sc *Scenario) { w.bfs(sc, false) }

func (w *Worker) bfs(sc *Scenario, shardFirst bool) {
	type node struct{ path []int }
	seen := map[[16]byte]struct{}{}
	hkey := func(s string) [16]byte {
		h := sha256.Sum256([]byte(s))
		var k [16]byte
		copy(k[:], h[:16])
		return k
	}
	root := sc.Fresh()
	rk := root.Key()
	root.Close()
	seen[hkey(rk)] = struct{}{}
	if w.Shard == 0 || !shardFirst {
		w.AddStates(1)
	}
	frontier := []node{{nil}}
	exhausted := false
	for depth := 1; depth <= sc.MaxDepth; depth++ {
		var next []node
		for _, nd := range frontier {
			for op := range sc.Ops {
				if shardFirst && depth == 1 && !w.Mine(op) {
					continue
				}
				if sc.Enabled != nil && !sc.Enabled(nd.path, op) {
					continue
				}
				if w.TimeUp() {
					w.Cap(fmt.Sprintf("time budget reached in scenario %s at depth %d", sc.Name, depth))
					return
				}
				path := append(append(make([]int, 0, len(nd.path)+1), nd.path...), op)
				w.Journal(mustJSON(seqReplay{sc.Name, path, sc.pathText(path)}))
				inst, vs, early, pathKey := sc.runPathKey(path, true)
				w.AddTrans(int64(len(path)))
				w.AddTraces(1)
				w.Eval(1)
				if early {
					// cannot happen: prefixes had no state divergence when
					// enqueued; a divergence now means uncontrolled nondeterminism.
					inst.Close()
					w.Count("nondeterministic_prefix", 1)
					w.Note("nondeterminism", fmt.Sprintf("scenario %s path %v diverged at a prefix that passed before: %s", sc.Name, sc.pathText(path), vs[0].Summary))
					continue
				}
				pruned := false
				{
					kept := vs[:0]
					for _, v := range vs {
						if v.Prune {
							pruned = true
						} else {
							kept = append(kept, v)
						}
					}
					vs = kept
				}
				if pruned && len(vs) == 0 {
					inst.Close()
					w.Count("pruned_unspecified", 1)
					continue
				}
				if len(vs) > 0 {
					// confirm by re-execution: the same path must fail the same way
					inst2, vs2, _ := sc.runPath(path, true)
					inst2.Close()
					if sigList(vs2) != sigList(vs) {
						inst.Close()
						w.Count("unconfirmed_violation", 1)
						w.Note("nondeterminism", fmt.Sprintf("scenario %s path %v: violations %q did not reproduce (%q)", sc.Name, sc.pathText(path), sigList(vs), sigList(vs2)))
						continue
					}
					fatal := false
					for _, v := range vs {
						v.Scenario = sc.Name
						v.Replay = seqReplay{sc.Name, path, sc.pathText(path)}
						w.Violation(*v)
						fatal = fatal || v.Fatal
					}
					if fatal {
						inst.Close()
						continue // state diverged: do not expand beyond it
					}
				}
				k := hkey(pathKey)
				inst.Close()
				if _, dup := seen[k]; dup {
					continue
				}
				seen[k] = struct{}{}
				w.AddStates(1)
				if len(w.res.Samples) < 2 && depth >= 2 {
					w.Sample(map[string]interface{}{"scenario": sc.Name, "ops": sc.pathText(path)})
				}
				next = append(next, node{path})
			}
		}
		w.Depth(depth)
		frontier = next
		if len(frontier) == 0 {
			exhausted = true
			break
		}
	}
	if exhausted {
		w.Count("scenarios_state_space_exhausted", 1)
	} else {
		w.Count("scenarios_depth_bounded", 1)
	}
}

// ReplaySeq re-runs a recorded path of one of the given scenarios.
func (w *Worker) ReplaySeq(raw json.RawMessage, scenarios []*Scenario) {
	var r seqReplay
	if err := json.Unmarshal(raw, &r); err != nil {
		panic(err)
	}
	for _, sc := range scenarios {
		if sc.Name != r.Scenario {
			continue
		}
		// Paths are recorded by op index AND text; trust text (alphabets may be reordered).
		path := make([]int, 0, len(r.OpsText))
		for i, t := range r.OpsText {
			idx := -1
			for j, o := range sc.Ops {
				if o == t {
					idx = j
				}
			}
			if idx < 0 && i < len(r.Path) {
				idx = r.Path[i]
			}
			path = append(path, idx)
		}
		inst, vs, _ := sc.runPath(path, true)
		inst.Close()
		for _, v := range vs {
			v.Scenario = sc.Name
			v.Replay = r
			w.Violation(*v)
		}
		return
	}
	panic("unknown scenario " + r.Scenario)
}

func mustJSON(x interface{}) string {
	b, err := json.Marshal(x)
	if err != nil {
		panic(err)
	}
	return string(b)
}
