package lib

import (
	"encoding/json"
	"fmt"
	"sort"
	"sync"

	"github.com/Comcast/rulio/core"
	"github.com/Comcast/rulio/cron"
)

// RecCron is the harness's cron service: it records registrations with the
// location they were made in and delivers a job's event on demand.
type RecCron struct {
	mu        sync.Mutex
	IsPersist bool
	Jobs      map[string]*RecJob // key: the id the engine registered (as given)
	Log       []string
	FailNext  bool
	Resolve   func(ctx *core.Context, location string) (*core.Location, error)
}

type RecJob struct {
	Id       string
	Location string
	Event    string
	Schedule string
	Ctx      *core.Context
}

func NewRecCron(persistent bool) *RecCron {
	return &RecCron{IsPersist: persistent, Jobs: map[string]*RecJob{}}
}

func (c *RecCron) ScheduleEvent(ctx *core.Context, se *cron.ScheduledEvent) error {
	c.mu.Lock()
	defer c.mu.Unlock()
	locName := ""
	if l := ctx.Location(); l != nil {
		locName = l.Name
	}
	if c.FailNext {
		c.FailNext = false
		return fmt.Errorf("injected cron failure")
	}
	if _, _, err := cron.ParseSchedule(se.Schedule); err != nil {
		return err
	}
	c.Jobs[se.Id] = &RecJob{Id: se.Id, Location: locName, Event: se.Event, Schedule: se.Schedule, Ctx: ctx}
	c.Log = append(c.Log, fmt.Sprintf("schedule %s@%s %s", se.Id, locName, se.Schedule))
	return nil
}

func (c *RecCron) Schedule(ctx *core.Context, sw *cron.ScheduledWork) error {
	return fmt.Errorf("RecCron: generic HTTP work not supported")
}

func (c *RecCron) Rem(ctx *core.Context, id string) (bool, error) {
	c.mu.Lock()
	defer c.mu.Unlock()
	_, have := c.Jobs[id]
	delete(c.Jobs, id)
	locName := ""
	if l := ctx.Location(); l != nil {
		locName = l.Name
	}
	c.Log = append(c.Log, fmt.Sprintf("rem %s@%s", id, locName))
	return have, nil
}

func (c *RecCron) Persistent() bool { return c.IsPersist }

// Held lists the registrations as "id@location".
func (c *RecCron) Held() []string {
	c.mu.Lock()
	defer c.mu.Unlock()
	var out []string
	for _, j := range c.Jobs {
		out = append(out, j.Id+"@"+j.Location)
	}
	sort.Strings(out)
	return out
}

// Tick delivers job id's event to the location it was registered in.
func (c *RecCron) Tick(id string) (*core.FindRules, error) {
	c.mu.Lock()
	j := c.Jobs[id]
	c.mu.Unlock()
	if j == nil {
		return nil, fmt.Errorf("no such job")
	}
	var ev core.Map
	if err := json.Unmarshal([]byte(j.Event), &ev); err != nil {
		return nil, err
	}
	loc, err := c.Resolve(j.Ctx, j.Location)
	if err != nil {
		return nil, err
	}
	fr, cond := loc.ProcessEvent(j.Ctx, ev)
	if cond != nil {
		return fr, cond
	}
	return fr, nil
}
