package lib

import (
	"encoding/json"
	"fmt"
	"sort"
	"sync"

	"github.com/Comcast/rulio/core"
	"github.com/Comcast/rulio/cron"
)

// RecCron is the harness's cron service: it records registrations with the
// location they were made in and delivers a job's event on demand.
type RecCron struct {
	mu        sync.Mutex
	IsPersist bool
	Jobs      map[string]*RecJob // key: the id the engine registered (as given)
	Log       []string
	FailNext  bool
	// ByLocation: registrations are keyed by (location, id) as the crolt service
	// keys them (account = location name); otherwise by id alone, as the built-in
	// cron does.
	ByLocation bool
	// ViaInstance: a tick is delivered to the Location instance captured at
	// registration (what the built-in cron's closure does); otherwise the location
	// is resolved by name at tick time (what an external cron's HTTP call does).
	ViaInstance bool
	Resolve     func(ctx *core.Context, location string) (*core.Location, error)
}

type RecJob struct {
	Id       string
	Location string
	Event    string
	Schedule string
	Ctx      *core.Context
	Loc      *core.Location
}

func (c *RecCron) key(ctx *core.Context, id string) string {
	if c.ByLocation {
		if l := ctx.Location(); l != nil {
			return l.Name + "\x00" + id
		}
	}
	return id
}

func NewRecCron(persistent bool) *RecCron {
	return &RecCron{IsPersist: persistent, Jobs: map[string]*RecJob{}}
}

func (c *RecCron) ScheduleEvent(ctx *core.Context, se *cron.ScheduledEvent) error {
	c.mu.Lock()
	defer c.mu.Unlock()
	locName := ""
	if l := ctx.Location(); l != nil {
		locName = l.Name
	}
	if c.FailNext {
		c.FailNext = false
		return fmt.Errorf("injected cron failure")
	}
	if _, _, err := cron.ParseSchedule(se.Schedule); err != nil {
		return err
	}
	c.Jobs[c.key(ctx, se.Id)] = &RecJob{Id: se.Id, Location: locName, Event: se.Event, Schedule: se.Schedule, Ctx: ctx, Loc: ctx.Location()}
	c.Log = append(c.Log, fmt.Sprintf("schedule %s@%s %s", se.Id, locName, se.Schedule))
	return nil
}

func (c *RecCron) Schedule(ctx *core.Context, sw *cron.ScheduledWork) error {
	return fmt.Errorf("RecCron: generic HTTP work not supported")
}

func (c *RecCron) Rem(ctx *core.Context, id string) (bool, error) {
	c.mu.Lock()
	defer c.mu.Unlock()
	_, have := c.Jobs[c.key(ctx, id)]
	delete(c.Jobs, c.key(ctx, id))
	locName := ""
	if l := ctx.Location(); l != nil {
		locName = l.Name
	}
	c.Log = append(c.Log, fmt.Sprintf("rem %s@%s", id, locName))
	return have, nil
}

func (c *RecCron) Persistent() bool { return c.IsPersist }

// Keys lists the registration keys (argument of Tick), sorted.
func (c *RecCron) Keys() []string {
	c.mu.Lock()
	defer c.mu.Unlock()
	var out []string
	for k := range c.Jobs {
		out = append(out, k)
	}
	sort.Strings(out)
	return out
}

// Job returns the registration stored under key (nil if none).
func (c *RecCron) Job(key string) *RecJob {
	c.mu.Lock()
	defer c.mu.Unlock()
	return c.Jobs[key]
}

// Held lists the registrations as "id@location".
func (c *RecCron) Held() []string {
	c.mu.Lock()
	defer c.mu.Unlock()
	var out []string
	for _, j := range c.Jobs {
		out = append(out, j.Id+"@"+j.Location)
	}
	sort.Strings(out)
	return out
}

// Tick delivers job id's event to the location it was registered in.
func (c *RecCron) Tick(id string) (*core.FindRules, error) {
	c.mu.Lock()
	j := c.Jobs[id]
	c.mu.Unlock()
	if j == nil {
		return nil, fmt.Errorf("no such job")
	}
	var ev core.Map
	if err := json.Unmarshal([]byte(j.Event), &ev); err != nil {
		return nil, err
	}
	var loc *core.Location
	var err error
	if c.ViaInstance {
		loc = j.Loc
	} else if loc, err = c.Resolve(j.Ctx, j.Location); err != nil {
		return nil, err
	}
	fr, cond := loc.ProcessEvent(j.Ctx, ev)
	if cond != nil {
		return fr, cond
	}
	return fr, nil
}
