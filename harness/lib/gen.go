package lib

import "sort"

// Engine GEN: bounded-exhaustive enumeration of JSON terms.

// GenOpts tunes the term grammar.
type GenOpts struct {
	Keys      []string
	Leaves    []interface{}
	Budget    int  // maximum number of nodes (every leaf, map and array counts 1)
	Depth     int  // maximum container nesting below the top-level map
	VarKey    bool // allow single-key maps {"?k": v}
	Empty     bool // allow {} and []
	MaxArray  int  // maximum array length (0 = no arrays)
	ArrayMaps bool // allow maps as array elements
}

type genItem struct {
	v    interface{}
	cost int
}

// GenMaps enumerates all top-level maps of the grammar (size order).
func GenMaps(keys []string, leaves []interface{}, depth int, varKey, empty bool) []map[string]interface{} {
	return GenMapsOpts(GenOpts{Keys: keys, Leaves: leaves, Budget: 5, Depth: depth, VarKey: varKey, Empty: empty, MaxArray: 2})
}

func GenMapsOpts(o GenOpts) []map[string]interface{} {
	items := genMap(o, o.Budget, o.Depth, true)
	sort.SliceStable(items, func(i, j int) bool { return items[i].cost < items[j].cost })
	seen := map[string]bool{}
	var out []map[string]interface{}
	for _, it := range items {
		m := it.v.(map[string]interface{})
		k := Canon(m)
		if seen[k] {
			continue
		}
		seen[k] = true
		out = append(out, m)
	}
	return out
}

func genValue(o GenOpts, budget, depth int) []genItem {
	var out []genItem
	if budget < 1 {
		return nil
	}
	for _, l := range o.Leaves {
		out = append(out, genItem{l, 1})
	}
	if depth > 0 {
		out = append(out, genMap(o, budget, depth-1, false)...)
		out = append(out, genArray(o, budget, depth-1)...)
	}
	return out
}

func genMap(o GenOpts, budget, depth int, top bool) []genItem {
	var out []genItem
	if budget < 1 {
		return nil
	}
	if o.Empty {
		out = append(out, genItem{map[string]interface{}{}, 1})
	}
	// subsets of keys, in order
	var rec func(i int, cur map[string]interface{}, cost int)
	rec = func(i int, cur map[string]interface{}, cost int) {
		if i == len(o.Keys) {
			if len(cur) > 0 {
				c := map[string]interface{}{}
				for k, v := range cur {
					c[k] = v
				}
				out = append(out, genItem{c, cost})
			}
			return
		}
		rec(i+1, cur, cost)
		for _, it := range genValue(o, budget-cost, depth) {
			if cost+it.cost > budget {
				continue
			}
			cur[o.Keys[i]] = it.v
			rec(i+1, cur, cost+it.cost)
			delete(cur, o.Keys[i])
		}
	}
	rec(0, map[string]interface{}{}, 1)
	if o.VarKey {
		for _, it := range genValue(o, budget-1, depth) {
			if 1+it.cost <= budget {
				out = append(out, genItem{map[string]interface{}{"?k": it.v}, 1 + it.cost})
			}
		}
	}
	return out
}

func genArray(o GenOpts, budget, depth int) []genItem {
	var out []genItem
	if o.MaxArray <= 0 || budget < 1 {
		return nil
	}
	if o.Empty {
		out = append(out, genItem{[]interface{}{}, 1})
	}
	elems := []genItem{}
	for _, l := range o.Leaves {
		elems = append(elems, genItem{l, 1})
	}
	if o.ArrayMaps && depth > 0 {
		elems = append(elems, genMap(o, budget-1, depth-1, false)...)
	}
	// combinations (as sets: ascending index), lengths 1..MaxArray
	var rec func(start int, cur []interface{}, cost int)
	rec = func(start int, cur []interface{}, cost int) {
		if len(cur) > 0 {
			out = append(out, genItem{append([]interface{}(nil), cur...), cost})
		}
		if len(cur) == o.MaxArray {
			return
		}
		for i := start; i < len(elems); i++ {
			if cost+elems[i].cost > budget {
				continue
			}
			rec(i+1, append(cur, elems[i].v), cost+elems[i].cost)
		}
	}
	rec(0, nil, 1)
	return out
}
