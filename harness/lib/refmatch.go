package lib

import (
	"fmt"
	"sort"
	"strings"
)

// RefMatch is the reference matcher, written from the manual's definition and
// the property statement (not from the implementation):
//
//   - a map pattern is laid over a map datum: every pattern key must be present
//     (extra datum keys are fine); a single variable key {"?k": v} ranges over
//     the datum's keys;
//   - an array pattern is laid over an array datum as a SET: every pattern
//     element is matched by a distinct datum element (extra elements are fine);
//   - a scalar matches an equal scalar (all numbers are float64);
//   - a variable takes the datum value at its position; a variable seen again
//     (or pre-bound by the caller) must find an EQUAL value (deep equality).
//
// The result is the set of distinct binding sets over all ways of laying the
// pattern over the datum.  It is deliberately brute force.
func RefMatch(pattern, datum interface{}, initial map[string]interface{}) (out []map[string]interface{}, err error) {
	defer func() {
		if r := recover(); r != nil {
			if e, ok := r.(refErr); ok {
				err = e
				return
			}
			panic(r)
		}
	}()
	b0 := map[string]interface{}{}
	for k, v := range initial {
		b0[k] = v
	}
	res := refMatch(pattern, datum, b0)
	seen := map[string]bool{}
	for _, b := range res {
		k := Canon(b)
		if !seen[k] {
			seen[k] = true
			out = append(out, b)
		}
	}
	sort.Slice(out, func(i, j int) bool { return Canon(out[i]) < Canon(out[j]) })
	return out, nil
}

type refErr string

func (e refErr) Error() string { return string(e) }

func isVar(x interface{}) (string, bool) {
	s, ok := x.(string)
	if ok && strings.HasPrefix(s, "?") {
		return s, true
	}
	return "", false
}

func cloneB(b map[string]interface{}) map[string]interface{} {
	c := make(map[string]interface{}, len(b)+1)
	for k, v := range b {
		c[k] = v
	}
	return c
}

func num(x interface{}) (float64, bool) {
	switch v := x.(type) {
	case float64:
		return v, true
	case float32:
		return float64(v), true
	case int:
		return float64(v), true
	case int32:
		return float64(v), true
	case int64:
		return float64(v), true
	}
	return 0, false
}

// DeepEq: JSON deep equality with numbers compared as float64 and arrays in order.
func DeepEq(a, b interface{}) bool {
	if x, ok := num(a); ok {
		y, ok2 := num(b)
		return ok2 && x == y
	}
	switch av := a.(type) {
	case nil:
		return b == nil
	case bool:
		bv, ok := b.(bool)
		return ok && av == bv
	case string:
		bv, ok := b.(string)
		return ok && av == bv
	case map[string]interface{}:
		bv, ok := b.(map[string]interface{})
		if !ok || len(av) != len(bv) {
			return false
		}
		for k, x := range av {
			y, have := bv[k]
			if !have || !DeepEq(x, y) {
				return false
			}
		}
		return true
	case []interface{}:
		bv, ok := b.([]interface{})
		if !ok || len(av) != len(bv) {
			return false
		}
		for i := range av {
			if !DeepEq(av[i], bv[i]) {
				return false
			}
		}
		return true
	}
	panic(refErr(fmt.Sprintf("refmatch: unsupported value %T", a)))
}

func refMatch(p, d interface{}, b map[string]interface{}) []map[string]interface{} {
	if v, ok := isVar(p); ok {
		if v == "?" {
			return []map[string]interface{}{b}
		}
		if cur, bound := b[v]; bound {
			if DeepEq(cur, d) {
				return []map[string]interface{}{b}
			}
			return nil
		}
		nb := cloneB(b)
		nb[v] = d
		return []map[string]interface{}{nb}
	}
	if _, ok := num(p); ok {
		if DeepEq(p, d) {
			return []map[string]interface{}{b}
		}
		return nil
	}
	switch pv := p.(type) {
	case nil, bool, string:
		if dm, isMap := d.(map[string]interface{}); isMap {
			_ = dm
			return nil
		}
		if _, isArr := d.([]interface{}); isArr {
			return nil
		}
		if DeepEq(p, d) {
			return []map[string]interface{}{b}
		}
		return nil
	case map[string]interface{}:
		dm, ok := d.(map[string]interface{})
		if !ok {
			return nil
		}
		keys := make([]string, 0, len(pv))
		varKeys := 0
		for k := range pv {
			keys = append(keys, k)
			if strings.HasPrefix(k, "?") {
				varKeys++
			}
		}
		sort.Strings(keys)
		if varKeys > 0 && len(keys) > 1 {
			panic(refErr("refmatch: variable key with other keys is outside the documented fragment"))
		}
		cur := []map[string]interface{}{b}
		for _, k := range keys {
			var next []map[string]interface{}
			if strings.HasPrefix(k, "?") {
				dks := make([]string, 0, len(dm))
				for dk := range dm {
					dks = append(dks, dk)
				}
				sort.Strings(dks)
				for _, bb := range cur {
					for _, dk := range dks {
						for _, b1 := range refMatch(k, dk, bb) {
							next = append(next, refMatch(pv[k], dm[dk], b1)...)
						}
					}
				}
			} else {
				dv, have := dm[k]
				if !have {
					return nil
				}
				for _, bb := range cur {
					next = append(next, refMatch(pv[k], dv, bb)...)
				}
			}
			cur = next
			if len(cur) == 0 {
				return nil
			}
		}
		return cur
	case []interface{}:
		da, ok := d.([]interface{})
		if !ok {
			return nil
		}
		// constants first, variables last: the outcome is order independent for
		// the equality semantics, this only keeps the enumeration small
		idx := make([]int, 0, len(pv))
		for i, x := range pv {
			if _, v := isVar(x); !v {
				idx = append(idx, i)
			}
		}
		for i, x := range pv {
			if _, v := isVar(x); v {
				idx = append(idx, i)
			}
		}
		type st struct {
			b    map[string]interface{}
			used map[int]bool
		}
		cur := []st{{b, map[int]bool{}}}
		for _, pi := range idx {
			var next []st
			for _, s := range cur {
				for di, dv := range da {
					if s.used[di] {
						continue
					}
					for _, nb := range refMatch(pv[pi], dv, s.b) {
						u := make(map[int]bool, len(s.used)+1)
						for k := range s.used {
							u[k] = true
						}
						u[di] = true
						next = append(next, st{nb, u})
					}
				}
			}
			cur = next
			if len(cur) == 0 {
				return nil
			}
		}
		out := make([]map[string]interface{}, 0, len(cur))
		for _, s := range cur {
			out = append(out, s.b)
		}
		return out
	}
	panic(refErr(fmt.Sprintf("refmatch: unsupported pattern %T", p)))
}

// RefSubst substitutes bindings into a pattern (the reference for Bindings.Bind).
func RefSubst(p interface{}, b map[string]interface{}) interface{} {
	switch v := p.(type) {
	case string:
		if val, ok := b[v]; ok && strings.HasPrefix(v, "?") {
			return val
		}
		return v
	case map[string]interface{}:
		m := make(map[string]interface{}, len(v))
		for k, x := range v {
			m[k] = RefSubst(x, b)
		}
		return m
	case []interface{}:
		a := make([]interface{}, len(v))
		for i, x := range v {
			a[i] = RefSubst(x, b)
		}
		return a
	}
	return p
}
