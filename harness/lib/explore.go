package lib

import (
	"encoding/json"
	"fmt"
	"os"
	"sort"
	"strings"
	"sync"
	"time"

	"github.com/Comcast/rulio/verifrt/sched"
)

// Engine SCHED: stateless, deviation-bounded depth-first exploration of the
// schedules of a small multi-threaded driver over the REAL (level-2
// instrumented) code.  A deviation is a preemption of a thread that could have
// continued, a timer landing early, or a non-default ready select case.

// Run is one controlled execution as seen by a scenario.
type Run struct {
	Exec    *sched.Exec
	Choices []int
	mu      sync.Mutex
	obs     []string
	Data    map[string]interface{} // scenario-private
}

// Record appends an observation (thread-safe; only one thread runs at a time anyway).
func (r *Run) Record(f string, a ...interface{}) {
	r.mu.Lock()
	r.obs = append(r.obs, fmt.Sprintf(f, a...))
	r.mu.Unlock()
}

func (r *Run) Obs() []string {
	r.mu.Lock()
	defer r.mu.Unlock()
	return append([]string(nil), r.obs...)
}

// Go spawns a named client thread from the scenario body.
func (r *Run) Go(f func()) { sched.Go(f) }

type SchedScenario struct {
	Name string
	// Body runs as the main managed thread; it spawns the client threads
	// (r.Go) and normally waits for them with a vsync.WaitGroup.
	Body func(r *Run)
	// Check inspects one finished execution (observations, deadlock, panic, races).
	Check    func(r *Run) []*Violation
	Bound    int // maximum deviations
	MaxExecs int // cap on executions (0 = 2e5)
	MaxSteps int
	Horizon  int64 // virtual nanoseconds (0 = none)
	// RacesAreViolations: report happens-before races found by the explorer
	Races func(r sched.Race) *Violation
	// NoEarlyTimers: timers fire only when every thread is blocked
	NoEarlyTimers bool
}

type schedReplay struct {
	Scenario string   `json:"scenario"`
	Choices  []int    `json:"choices"`
	Shared   []string `json:"shared_labels"`
	Trace    []string `json:"trace,omitempty"`
}

type explorer struct {
	w         *Worker
	sc        *SchedScenario
	shared    map[string]bool
	execs     int64
	capped    bool
	outcomes  map[string]int
	newShared map[string]bool
	steps     int64
	maxTrace  int
	seen      map[uint64]int
	pruned    int64
}

func (x *explorer) run(prefix []int) *Run {
	r := &Run{Data: map[string]interface{}{}}
	pos := 0
	var choices []int
	e := &sched.Exec{MaxSteps: x.sc.MaxSteps, Shared: x.shared, NoEarlyTimers: x.sc.NoEarlyTimers}
	if x.sc.Horizon > 0 {
		e.Horizon = time.Duration(x.sc.Horizon)
	}
	e.SetChooser(func(e *sched.Exec, opts []sched.Option, what string) int {
		c := 0
		if pos < len(prefix) {
			c = prefix[pos]
			if c >= len(opts) {
				// hard tooling error, never a verdict
				fmt.Fprintf(os.Stderr, "TOOLING-ERROR explorer: divergence while replaying a prefix in %s: choice %d of %d options at point %d (%s); prefix=%v\n", x.sc.Name, c, len(opts), pos, what, prefix)
				os.Exit(3)
			}
		}
		pos++
		choices = append(choices, c)
		return c
	})
	r.Exec = e
	sched.Run(func() { x.sc.Body(r) }, e)
	r.Choices = choices
	x.execs++
	x.steps += int64(len(e.Trace))
	if os.Getenv("VERIF_SCHED_STATS") != "" && len(e.Trace) > x.maxTrace {
		x.maxTrace = len(e.Trace)
		h := map[string]int{}
		for _, p := range e.Trace {
			h[fmt.Sprintf("%s/%dopts", p.What, len(p.Options))]++
		}
		fmt.Fprintf(os.Stderr, "SCHED-STATS longest trace so far in %s: %d points %v capHit=%v deadlock=%q prefix=%v\n", x.sc.Name, len(e.Trace), h, e.CapHit, e.Deadlock, prefix)
	}
	for l := range e.SharedOut {
		if x.shared != nil && !x.shared[l] {
			x.newShared[l] = true
		}
	}
	return r
}

func costBefore(tr []sched.Point, i int) int {
	c := 0
	for j := 0; j < i; j++ {
		c += tr[j].Options[tr[j].Chosen].Cost
	}
	return c
}

func (x *explorer) check(r *Run) {
	var vs []*Violation
	if x.sc.Check != nil {
		vs = x.sc.Check(r)
	}
	if x.sc.Races != nil {
		for _, rc := range r.Exec.Races {
			if v := x.sc.Races(rc); v != nil {
				vs = append(vs, v)
			}
		}
	}
	out := strings.Join(r.Obs(), " | ")
	if r.Exec.Deadlock != "" {
		out += " DEADLOCK"
	}
	if r.Exec.Panic != "" {
		out += " PANIC"
	}
	x.outcomes[out]++
	if len(vs) == 0 {
		return
	}
	// confirm: the same schedule must fail the same way again
	r2 := x.run(r.Choices)
	var vs2 []*Violation
	if x.sc.Check != nil {
		vs2 = x.sc.Check(r2)
	}
	if x.sc.Races != nil {
		for _, rc := range r2.Exec.Races {
			if v := x.sc.Races(rc); v != nil {
				vs2 = append(vs2, v)
			}
		}
	}
	if sigSet(vs) != sigSet(vs2) {
		x.w.Count("unconfirmed_schedule_violation", 1)
		x.w.Note("nondeterminism", fmt.Sprintf("scenario %s choices %v: %q then %q", x.sc.Name, r.Choices, sigSet(vs), sigSet(vs2)))
		return
	}
	var labels []string
	for l := range x.shared {
		labels = append(labels, l)
	}
	sort.Strings(labels)
	var tr []string
	for _, p := range r.Exec.Trace {
		tr = append(tr, fmt.Sprintf("t%d@%s->%v", p.Running, p.What, p.Options[p.Chosen].Thread))
	}
	if len(tr) > 60 {
		tr = tr[:60]
	}
	for _, v := range vs {
		v.Scenario = x.sc.Name
		v.Replay = schedReplay{x.sc.Name, r.Choices, labels, tr}
		x.w.Violation(*v)
	}
}

func sigSet(vs []*Violation) string {
	var s []string
	for _, v := range vs {
		s = append(s, v.Signature)
	}
	sort.Strings(s)
	return strings.Join(s, "\n")
}

// explore: the brief's idiom.  shard>=0 restricts the ROOT alternatives.
func (x *explorer) explore(prefix []int, bound int, root bool, mine func(int) bool) {
	if x.capped {
		return
	}
	max := int64(x.sc.MaxExecs)
	if max == 0 {
		max = 200000
	}
	if x.execs >= max || x.w.TimeUp() {
		x.capped = true
		return
	}
	r := x.run(prefix)
	if !root || mine == nil || mine(-1) {
		x.check(r)
	}
	tr := r.Exec.Trace
	n := 0
	// happens-before state caching: a state (partial order of visible operations
	// so far) already being expanded with at least this much budget left is not
	// expanded again.  All points of this execution are registered up front (this
	// invocation WILL expand them), so descendants prune against them too.
	fresh := make([]bool, len(tr))
	for i := len(prefix); i < len(tr); i++ {
		rem := bound - costBefore(tr, i)
		if old, ok := x.seen[tr[i].Key]; ok && old >= rem && os.Getenv("VERIF_NO_HBCACHE") == "" {
			x.pruned++
			continue
		}
		x.seen[tr[i].Key] = rem
		fresh[i] = true
	}
	for i := len(prefix); i < len(tr); i++ {
		if !fresh[i] {
			continue
		}
		base := costBefore(tr, i)
		for alt := 1; alt < len(tr[i].Options); alt++ {
			if base+tr[i].Options[alt].Cost > bound {
				continue
			}
			n++
			if root && mine != nil && !mine(n) {
				continue
			}
			next := append(append(make([]int, 0, i+1), r.Choices[:i]...), alt)
			x.explore(next, bound, false, nil)
		}
	}
}

// Explore runs the scenario: learns the shared-object set (unsharded, bound
// <= 1, to a fixpoint), then explores all schedules up to sc.Bound deviations,
// root alternatives partitioned over the worker shards.
func (w *Worker) Explore(sc *SchedScenario) { w.exploreImpl(sc, true) }

// ExploreWhole explores the whole scenario in this worker (callers shard by scenario).
func (w *Worker) ExploreWhole(sc *SchedScenario) { w.exploreImpl(sc, false) }

func (w *Worker) exploreImpl(sc *SchedScenario, shardRoot bool) {
	if only := os.Getenv("VERIF_ONLY"); only != "" && !strings.Contains(sc.Name, only) {
		return
	}
	x := &explorer{w: w, sc: sc, shared: map[string]bool{}, outcomes: map[string]int{}, newShared: map[string]bool{}, seen: map[uint64]int{}}
	mine := func(n int) bool {
		if !shardRoot {
			return true
		}
		if n < 0 {
			return w.Shard == 0
		}
		return w.Mine(n)
	}
	var learnExecs int64
	if shardRoot {
		// root-sharded: every worker must agree on the shared-object set, so it is
		// learnt first, unsharded, with at most one deviation, to a fixpoint
		for round := 0; round < 8; round++ {
			x.newShared = map[string]bool{}
			x.seen = map[uint64]int{}
			lb := 1
			if sc.Bound < 1 {
				lb = sc.Bound
			}
			x.explore(nil, lb, true, nil)
			if len(x.newShared) == 0 {
				break
			}
			for l := range x.newShared {
				x.shared[l] = true
			}
		}
		learnExecs = x.execs
	}
	// ---- exploration proper; scenario-sharded runs iterate the shared-object
	// set to a fixpoint here (objects that turn out to be shared on some schedule
	// become branching points in the next round; violations of earlier rounds stand)
	rounds := 0
	for {
		rounds++
		x.newShared = map[string]bool{}
		x.outcomes = map[string]int{}
		x.capped = false
		x.execs = 0
		x.steps = 0
		x.seen = map[uint64]int{}
		x.pruned = 0
		x.explore(nil, sc.Bound, true, mine)
		if shardRoot || len(x.newShared) == 0 || x.capped || rounds >= 6 {
			break
		}
		learnExecs += x.execs
		for l := range x.newShared {
			x.shared[l] = true
		}
	}
	if os.Getenv("VERIF_SCHED_STATS") != "" {
		fmt.Fprintf(os.Stderr, "SCHED-STATS %s: rounds=%d schedules=%d shared=%d pruned=%d outcomes=%d capped=%v\n", sc.Name, rounds, x.execs, len(x.shared), x.pruned, len(x.outcomes), x.capped)
		for o, n := range x.outcomes {
			fmt.Fprintf(os.Stderr, "   outcome x%d: %s\n", n, o)
		}
	}
	w.Eval(x.execs)
	w.AddTraces(x.execs)
	w.AddTrans(x.steps)
	w.AddStates(int64(len(x.outcomes)))
	w.Count("schedules:"+sc.Name, x.execs)
	w.Count("learning_executions", learnExecs)
	w.Count("hb_states_pruned", x.pruned)
	w.Count("hb_states_expanded", int64(len(x.seen)))
	w.Count("shared_objects:"+sc.Name, int64(len(x.shared)))
	for o := range x.outcomes {
		w.Nontrivial(sc.Name + "|" + o)
	}
	if len(x.newShared) > 0 && !x.capped {
		w.Count("late_shared_labels", int64(len(x.newShared)))
		w.Cap(fmt.Sprintf("scenario %s: %d sync objects became shared only on deeper schedules; accesses to them before that were not branching points", sc.Name, len(x.newShared)))
	}
	if x.capped {
		w.Cap(fmt.Sprintf("scenario %s: execution/time cap reached after %d schedules (bound %d not completed)", sc.Name, x.execs, sc.Bound))
	}
	if w.Shard == 0 || !shardRoot {
		w.Sample(map[string]interface{}{"scenario": sc.Name, "bound": sc.Bound, "schedules": x.execs, "distinct_outcomes": len(x.outcomes)})
	}
}

// ReplaySched re-runs one recorded schedule.
func (w *Worker) ReplaySched(raw json.RawMessage, scs []*SchedScenario) {
	var rp schedReplay
	if err := json.Unmarshal(raw, &rp); err != nil {
		panic(err)
	}
	for _, sc := range scs {
		if sc.Name != rp.Scenario {
			continue
		}
		x := &explorer{w: w, sc: sc, shared: map[string]bool{}, outcomes: map[string]int{}, newShared: map[string]bool{}, seen: map[uint64]int{}}
		for _, l := range rp.Shared {
			x.shared[l] = true
		}
		r := x.run(rp.Choices)
		x.check(r)
		return
	}
	panic("unknown scenario " + rp.Scenario)
}
