package lib

import (
	"fmt"
	"os"
	"runtime/debug"
	"sort"
	"sync"
	stdtime "time"

	"github.com/Comcast/rulio/core"
	vtime "github.com/Comcast/rulio/verifrt/vtime"
)

// T0 is the instant every virtual-clock scenario starts at (whole second).
var T0 = stdtime.Date(2030, 1, 1, 0, 0, 0, 0, stdtime.UTC)

// Clock installs a frozen virtual clock at T0 and returns it.
func Clock() *vtime.Frozen {
	f := vtime.NewFrozen(T0)
	vtime.SetBackend(f)
	return f
}

// Ctx returns a quiet context.
func Ctx() *core.Context {
	ctx := core.BenchContext("verif")
	return ctx
}

// QuietControl: defaults minus timing noise.
func QuietControl() *core.Control {
	c := core.DefaultControl()
	c.NoTiming = true
	return c
}

// NewState builds a state of the named kind over store.
func NewState(ctx *core.Context, kind, name string, store core.Storage) core.State {
	switch kind {
	case "indexed":
		s, err := core.NewIndexedState(ctx, name, store)
		if err != nil {
			panic(err)
		}
		return s
	case "linear":
		s, err := core.NewLinearState(ctx, name, store)
		if err != nil {
			panic(err)
		}
		return s
	}
	panic("state kind " + kind)
}

// NewLoc creates (loads) a location over store.
func NewLoc(ctx *core.Context, kind, name string, store core.Storage) (*core.Location, error) {
	st := NewState(ctx, kind, name, store)
	loc, err := core.NewLocation(ctx, name, st, nil)
	if loc != nil {
		loc.SetControl(QuietControl())
	}
	return loc, err
}

func MustLoc(ctx *core.Context, kind, name string, store core.Storage) *core.Location {
	loc, err := NewLoc(ctx, kind, name, store)
	if err != nil {
		panic(fmt.Sprintf("NewLoc(%s,%s): %v", kind, name, err))
	}
	return loc
}

func MemStore(ctx *core.Context) *core.MemStorage {
	s, err := core.NewMemStorage(ctx)
	if err != nil {
		panic(err)
	}
	return s
}

// ---------------------------------------------------------------------------

// StoreCall is one logged storage call.
type StoreCall struct {
	Op  string `json:"op"`
	Loc string `json:"loc"`
	K   string `json:"k,omitempty"`
	V   string `json:"v,omitempty"`
}

// RecStore wraps a Storage, logs every call, and can fail or "crash" at the
// k-th mutating call.
type RecStore struct {
	Inner core.Storage
	mu    sync.Mutex
	Calls []StoreCall
	Loads map[string]int
	// FailAt: index (in mutating-call order, 0-based) of the call that returns an error; -1 = none.
	FailAt int
	// CrashAt: from this mutating call on, nothing is applied (process "died"); -1 = none.
	CrashAt  int
	mutating int
	Crashed  bool
	// FailLoad makes Load return an error.
	FailLoad bool
	// OnLoad, when set, is told about every Load (with the caller's context);
	// OnLoaded when that Load returns.
	OnLoad   func(ctx *core.Context, loc string)
	OnLoaded func(ctx *core.Context, loc string)
}

func NewRecStore(inner core.Storage) *RecStore {
	return &RecStore{Inner: inner, FailAt: -1, CrashAt: -1, Loads: map[string]int{}}
}

var ErrInjected = fmt.Errorf("injected storage failure")

// gate returns (apply, err): whether to apply the mutation and the error to return.
func (r *RecStore) gate(c StoreCall) (bool, error) {
	r.mu.Lock()
	defer r.mu.Unlock()
	idx := r.mutating
	r.mutating++
	r.Calls = append(r.Calls, c)
	if r.CrashAt >= 0 && idx >= r.CrashAt {
		r.Crashed = true
		return false, nil
	}
	if r.FailAt >= 0 && idx == r.FailAt {
		return false, ErrInjected
	}
	return true, nil
}

// Mutations reports how many mutating calls were made so far.
func (r *RecStore) Mutations() int {
	r.mu.Lock()
	defer r.mu.Unlock()
	return r.mutating
}

func (r *RecStore) Load(ctx *core.Context, loc string) ([]core.Pair, error) {
	if os.Getenv("VERIF_DEBUG_LOADS") != "" {
		fmt.Fprintf(os.Stderr, "LOAD %s\n%s\n", loc, debug.Stack())
	}
	r.mu.Lock()
	r.Loads[loc]++
	fl := r.FailLoad
	on := r.OnLoad
	r.mu.Unlock()
	if on != nil {
		on(ctx, loc)
	}
	if fl {
		return nil, ErrInjected
	}
	ps, err := r.Inner.Load(ctx, loc)
	if done := r.OnLoaded; done != nil {
		done(ctx, loc)
	}
	return ps, err
}

func (r *RecStore) Add(ctx *core.Context, loc string, p *core.Pair) error {
	ok, err := r.gate(StoreCall{"add", loc, string(p.K), string(p.V)})
	if !ok {
		return err
	}
	return r.Inner.Add(ctx, loc, p)
}

func (r *RecStore) Remove(ctx *core.Context, loc string, k []byte) (int64, error) {
	ok, err := r.gate(StoreCall{"rem", loc, string(k), ""})
	if !ok {
		return 0, err
	}
	return r.Inner.Remove(ctx, loc, k)
}

func (r *RecStore) Clear(ctx *core.Context, loc string) (int64, error) {
	ok, err := r.gate(StoreCall{"clear", loc, "", ""})
	if !ok {
		return 0, err
	}
	return r.Inner.Clear(ctx, loc)
}

func (r *RecStore) Delete(ctx *core.Context, loc string) error {
	ok, err := r.gate(StoreCall{"delete", loc, "", ""})
	if !ok {
		return err
	}
	return r.Inner.Delete(ctx, loc)
}

func (r *RecStore) GetStats(ctx *core.Context, loc string) (core.StorageStats, error) {
	return r.Inner.GetStats(ctx, loc)
}
func (r *RecStore) Close(ctx *core.Context) error  { return r.Inner.Close(ctx) }
func (r *RecStore) Health(ctx *core.Context) error { return r.Inner.Health(ctx) }

// Pairs returns the persisted pairs of a location as id -> JSON text (sorted view).
func Pairs(ctx *core.Context, s core.Storage, loc string) map[string]string {
	ps, err := s.Load(ctx, loc)
	if err != nil {
		return map[string]string{"!load-error": err.Error()}
	}
	m := map[string]string{}
	for _, p := range ps {
		m[string(p.K)] = string(p.V)
	}
	return m
}

func PairIds(ctx *core.Context, s core.Storage, loc string) []string {
	m := Pairs(ctx, s, loc)
	ks := make([]string, 0, len(m))
	for k := range m {
		ks = append(ks, k)
	}
	sort.Strings(ks)
	return ks
}

// ErrClass maps an error to a coarse class for comparisons.
func ErrClass(err error) string {
	if err == nil {
		return "ok"
	}
	switch err.(type) {
	case *core.NotFoundError:
		return "notfound"
	case *core.ExpiredError:
		return "expired"
	case *core.SyntaxError:
		return "syntax"
	}
	return "error"
}

// BindingsSet canonicalises a list of bindings as a sorted list of canonical strings.
func BindingsSet(bss []core.Bindings) []string {
	out := make([]string, 0, len(bss))
	for _, bs := range bss {
		out = append(out, Canon(map[string]interface{}(bs)))
	}
	sort.Strings(out)
	return out
}

// Recover runs f and converts a panic into an error string (used where a panic
// is itself an observation; most checks let panics kill the worker instead).
func Recover(f func()) (p interface{}) {
	defer func() {
		if r := recover(); r != nil {
			p = r
		}
	}()
	f()
	return nil
}

// NormArrays returns a copy of x in which every array is sorted by the
// canonical rendering of its elements (rulio arrays are sets).
func NormArrays(x interface{}) interface{} {
	switch v := x.(type) {
	case map[string]interface{}:
		m := make(map[string]interface{}, len(v))
		for k, y := range v {
			m[k] = NormArrays(y)
		}
		return m
	case core.Map:
		return NormArrays(map[string]interface{}(v))
	case core.Bindings:
		return NormArrays(map[string]interface{}(v))
	case []interface{}:
		ys := make([]interface{}, len(v))
		for i, y := range v {
			ys[i] = NormArrays(y)
		}
		sort.SliceStable(ys, func(i, j int) bool { return Canon(ys[i]) < Canon(ys[j]) })
		return ys
	}
	return x
}

// BindingsSetN is BindingsSet with arrays inside values treated as sets.
func BindingsSetN(bss []core.Bindings) []string {
	out := make([]string, 0, len(bss))
	for _, bs := range bss {
		out = append(out, Canon(NormArrays(map[string]interface{}(bs))))
	}
	sort.Strings(out)
	return out
}
