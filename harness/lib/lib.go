// Package lib is the common plumbing of the verification harness: sharded
// worker processes, evidence, violations, replays, known findings.
package lib

import (
	"bufio"
	"bytes"
	"crypto/sha256"
	"encoding/binary"
	"encoding/json"
	"fmt"
	"hash/fnv"
	"os"
	"os/exec"
	"path/filepath"
	"runtime/debug"
	"sort"
	"strconv"
	"strings"
	"sync"
	"time"
)

const VerifDir = "/verif"

// Violation is one property failure found on one explored case.
type Violation struct {
	Property  string      `json:"property"`
	Scenario  string      `json:"scenario"`
	Signature string      `json:"signature"` // narrow classifier output; matched against known_findings.json
	Summary   string      `json:"summary"`
	Replay    interface{} `json:"replay"` // what --replay needs to re-run exactly this case
	Expected  interface{} `json:"expected,omitempty"`
	Observed  interface{} `json:"observed,omitempty"`
	// Fatal: implementation and model have diverged in STATE (not merely in one
	// observation); the search does not expand beyond such a node.
	Fatal bool `json:"-"`
	// Prune: not a violation at all; the search just does not expand beyond this
	// node (the statement leaves the outcome unspecified).
	Prune bool `json:"-"`
}

// Result is what a worker hands to the parent.
type Result struct {
	Shard        int                    `json:"shard"`
	Evaluations  int64                  `json:"evaluations"`
	States       int64                  `json:"states"`
	Transitions  int64                  `json:"transitions"`
	Traces       int64                  `json:"traces"`
	Violations   []Violation            `json:"violations"`
	ViolationCnt map[string]int64       `json:"violation_counts"`
	Samples      []interface{}          `json:"samples"`
	Extra        map[string]int64       `json:"extra"`
	Notes        map[string]interface{} `json:"notes"`
	Exhaustive   bool                   `json:"exhaustive"`
	CapsHit      []string               `json:"caps_hit"`
	NontrivFile  string                 `json:"nontriv_file"`
	MaxDepth     int                    `json:"max_depth"`
}

// Worker is the handle a check body works with.
type Worker struct {
	Check    *Check
	Tier     string
	Seed     int64
	Shard    int
	NShards  int
	Replay   json.RawMessage // non-nil in replay mode
	Deadline time.Time

	mu       sync.Mutex
	res      Result
	nontriv  map[uint64]struct{}
	journal  *os.File
	sigSeen  map[string]int
	maxPerSg int
}

// Check describes one property check.
type Check struct {
	ID          string
	Level       string // evidence level
	Rule        string // how cases are enumerated / what is non-trivial
	Assumptions []string
	// Shards: how many worker processes (0 = default 16; 1 = run in one process).
	Shards func(tier string) int
	Run    func(w *Worker)
	// ReplayFn re-runs one recorded case; it must call w.Violation again if it still fails.
	ReplayFn func(w *Worker, replay json.RawMessage)
	// CrashIsViolation: abnormal worker death is a property violation (attributed
	// to the journaled case) instead of a tooling error.
	CrashIsViolation bool
	// CrashSignature classifies a journaled crash case.
	CrashSignature func(journal string) (sig, summary string)
	// Budget (seconds) per tier after which workers stop expanding and report exhaustive=false.
	Budget func(tier string) time.Duration
}

var registry = map[string]*Check{}

func Register(c *Check) { registry[c.ID] = c }

func (w *Worker) Mine(i int) bool {
	if w.NShards <= 1 {
		return true
	}
	return i%w.NShards == w.Shard
}

func (w *Worker) MineKey(s string) bool {
	if w.NShards <= 1 {
		return true
	}
	h := fnv.New32a()
	h.Write([]byte(s))
	return int(h.Sum32()%uint32(w.NShards)) == w.Shard
}

func (w *Worker) Eval(n int64)         { w.mu.Lock(); w.res.Evaluations += n; w.mu.Unlock() }
func (w *Worker) AddStates(n int64)    { w.mu.Lock(); w.res.States += n; w.mu.Unlock() }
func (w *Worker) AddTrans(n int64)     { w.mu.Lock(); w.res.Transitions += n; w.mu.Unlock() }
func (w *Worker) AddTraces(n int64)    { w.mu.Lock(); w.res.Traces += n; w.mu.Unlock() }
func (w *Worker) SetExhaustive(b bool) { w.mu.Lock(); w.res.Exhaustive = b; w.mu.Unlock() }
func (w *Worker) Depth(d int) {
	w.mu.Lock()
	if d > w.res.MaxDepth {
		w.res.MaxDepth = d
	}
	w.mu.Unlock()
}
func (w *Worker) Cap(s string) {
	w.mu.Lock()
	for _, c := range w.res.CapsHit {
		if c == s {
			w.mu.Unlock()
			return
		}
	}
	w.res.CapsHit = append(w.res.CapsHit, s)
	w.res.Exhaustive = false
	w.mu.Unlock()
}
func (w *Worker) Count(name string, n int64) {
	w.mu.Lock()
	if w.res.Extra == nil {
		w.res.Extra = map[string]int64{}
	}
	w.res.Extra[name] += n
	w.mu.Unlock()
}
func (w *Worker) Note(name string, v interface{}) {
	w.mu.Lock()
	if w.res.Notes == nil {
		w.res.Notes = map[string]interface{}{}
	}
	w.res.Notes[name] = v
	w.mu.Unlock()
}

// Nontrivial records one distinct non-trivial case key.
func (w *Worker) Nontrivial(key string) {
	h := fnv.New64a()
	h.Write([]byte(key))
	w.mu.Lock()
	w.nontriv[h.Sum64()] = struct{}{}
	w.mu.Unlock()
}

func (w *Worker) Sample(x interface{}) {
	w.mu.Lock()
	if len(w.res.Samples) < 4 {
		w.res.Samples = append(w.res.Samples, x)
	}
	w.mu.Unlock()
}

// TimeUp reports whether the internal budget is exhausted.
func (w *Worker) TimeUp() bool {
	return !w.Deadline.IsZero() && time.Now().After(w.Deadline)
}

// Journal records the case about to be executed (for crash attribution).
func (w *Worker) Journal(s string) {
	if w.journal == nil {
		return
	}
	w.journal.Truncate(0)
	w.journal.WriteAt([]byte(s), 0)
}

// Violation records a violation; at most a few per signature are kept in full.
// It reports whether this signature is new to this worker.
func (w *Worker) Violation(v Violation) bool {
	v.Property = w.Check.ID
	w.mu.Lock()
	defer w.mu.Unlock()
	if w.res.ViolationCnt == nil {
		w.res.ViolationCnt = map[string]int64{}
	}
	w.res.ViolationCnt[v.Signature]++
	n := w.sigSeen[v.Signature]
	w.sigSeen[v.Signature] = n + 1
	if n < w.maxPerSg {
		w.res.Violations = append(w.res.Violations, v)
	}
	return n == 0
}

// SigCount tells how often a signature was seen by this worker.
func (w *Worker) SigCount(sig string) int {
	w.mu.Lock()
	defer w.mu.Unlock()
	return w.sigSeen[sig]
}

// ---------------------------------------------------------------------------

type knownFile struct {
	Findings []struct {
		Property  string      `json:"property"`
		Signature string      `json:"signature"`
		What      string      `json:"what"`
		Witness   interface{} `json:"witness,omitempty"`
	} `json:"findings"`
	Fixed []string `json:"fixed"`
}

func loadKnown() knownFile {
	var k knownFile
	b, err := os.ReadFile(filepath.Join(VerifDir, "known_findings.json"))
	if err == nil {
		json.Unmarshal(b, &k)
	}
	return k
}

// Main is the entry point of the harness binaries.
//
//	<bin> <ID> <tier>            parent: shards, merges, writes evidence
//	<bin> <ID> --replay <path>   re-run one recorded case
//	<bin> <ID> <tier> --worker i/N  (internal)
func Main() {
	args := os.Args[1:]
	if len(args) < 2 {
		fmt.Fprintln(os.Stderr, "usage: <ID> quick|thorough | <ID> --replay <path>")
		os.Exit(3)
	}
	id := args[0]
	c := registry[id]
	if c == nil {
		fmt.Fprintf(os.Stderr, "unknown check %s\n", id)
		os.Exit(3)
	}
	seed := int64(0)
	if s := os.Getenv("VERIF_SEED"); s != "" {
		seed, _ = strconv.ParseInt(s, 10, 64)
	}
	if args[1] == "--replay" {
		if len(args) < 3 {
			os.Exit(3)
		}
		runReplay(c, args[2], seed)
		return
	}
	tier := args[1]
	if tier != "quick" && tier != "thorough" {
		fmt.Fprintln(os.Stderr, "tier must be quick or thorough")
		os.Exit(3)
	}
	for i := 2; i < len(args); i++ {
		if args[i] == "--worker" && i+1 < len(args) {
			var sh, n int
			fmt.Sscanf(args[i+1], "%d/%d", &sh, &n)
			runWorker(c, tier, seed, sh, n)
			return
		}
	}
	runParent(c, tier, seed)
}

func newWorker(c *Check, tier string, seed int64, sh, n int) *Worker {
	w := &Worker{Check: c, Tier: tier, Seed: seed, Shard: sh, NShards: n,
		nontriv: map[uint64]struct{}{}, sigSeen: map[string]int{}, maxPerSg: 3}
	w.res.Shard = sh
	w.res.Exhaustive = true
	if c.Budget != nil {
		if b := c.Budget(tier); b > 0 {
			w.Deadline = time.Now().Add(b)
		}
	}
	return w
}

func runWorker(c *Check, tier string, seed int64, sh, n int) {
	// runaway recursion must fail fast (default limit is 1 GB per goroutine)
	debug.SetMaxStack(256 << 20)
	w := newWorker(c, tier, seed, sh, n)
	if j := os.Getenv("VERIF_JOURNAL"); j != "" {
		f, err := os.OpenFile(j, os.O_CREATE|os.O_RDWR|os.O_TRUNC, 0o644)
		if err == nil {
			w.journal = f
		}
	}
	c.Run(w)
	// nontrivial hashes to a side file
	if nf := os.Getenv("VERIF_NONTRIV"); nf != "" {
		f, err := os.Create(nf)
		if err == nil {
			bw := bufio.NewWriter(f)
			var b [8]byte
			for h := range w.nontriv {
				binary.LittleEndian.PutUint64(b[:], h)
				bw.Write(b[:])
			}
			bw.Flush()
			f.Close()
			w.res.NontrivFile = nf
		}
	}
	out := os.Getenv("VERIF_RESULT")
	b, _ := json.Marshal(&w.res)
	if out != "" {
		os.WriteFile(out, b, 0o644)
	} else {
		os.Stdout.Write(b)
	}
	os.Exit(0)
}

func runReplay(c *Check, path string, seed int64) {
	b, err := os.ReadFile(path)
	if err != nil {
		fmt.Fprintln(os.Stderr, err)
		os.Exit(3)
	}
	var v Violation
	if err := json.Unmarshal(b, &v); err != nil {
		fmt.Fprintln(os.Stderr, err)
		os.Exit(3)
	}
	if c.ReplayFn == nil {
		fmt.Fprintln(os.Stderr, "check has no replay function")
		os.Exit(3)
	}
	w := newWorker(c, "quick", seed, 0, 1)
	raw, _ := json.Marshal(v.Replay)
	w.Replay = raw
	c.ReplayFn(w, raw)
	if len(w.res.Violations) > 0 {
		for _, vv := range w.res.Violations {
			fmt.Printf("REPLAY-VIOLATION property=%s signature=%s %s\n", c.ID, vv.Signature, vv.Summary)
		}
		fmt.Printf("VIOLATION property=%s replay=%s\n", c.ID, path)
		os.Exit(1)
	}
	fmt.Printf("replay of %s: property held\n", path)
	os.Exit(0)
}

func scratch() string {
	if s := os.Getenv("VERIF_SCRATCH"); s != "" {
		return s
	}
	d, _ := os.MkdirTemp("/dev/shm", "verif-run-")
	return d
}

func runParent(c *Check, tier string, seed int64) {
	start := time.Now()
	n := 16
	if c.Shards != nil {
		n = c.Shards(tier)
	}
	if n < 1 {
		n = 1
	}
	dir := scratch()
	ownDir := os.Getenv("VERIF_SCRATCH") == ""
	if ownDir {
		defer os.RemoveAll(dir)
	}
	self, _ := os.Executable()
	type wr struct {
		res     *Result
		err     error
		journal string
		stderr  string
	}
	results := make([]wr, n)
	var wg sync.WaitGroup
	for i := 0; i < n; i++ {
		wg.Add(1)
		go func(i int) {
			defer wg.Done()
			jf := filepath.Join(dir, fmt.Sprintf("journal-%s-%d", c.ID, i))
			rf := filepath.Join(dir, fmt.Sprintf("result-%s-%d.json", c.ID, i))
			nf := filepath.Join(dir, fmt.Sprintf("nontriv-%s-%d.bin", c.ID, i))
			cmd := exec.Command(self, c.ID, tier, "--worker", fmt.Sprintf("%d/%d", i, n))
			cmd.Env = append(os.Environ(), "VERIF_JOURNAL="+jf, "VERIF_RESULT="+rf, "VERIF_NONTRIV="+nf,
				"VERIF_WORKDIR="+dir, "GOMAXPROCS=2")
			var eb bytes.Buffer
			cmd.Stderr = &eb
			cmd.Stdout = &eb
			err := cmd.Run()
			r := wr{err: err}
			if b, e := os.ReadFile(rf); e == nil {
				var res Result
				if json.Unmarshal(b, &res) == nil {
					r.res = &res
				}
			}
			if jb, e := os.ReadFile(jf); e == nil {
				r.journal = string(jb)
			}
			es := eb.String()
			if len(es) > 6000 {
				es = es[:3000] + "\n...\n" + es[len(es)-3000:]
			}
			r.stderr = es
			results[i] = r
		}(i)
	}
	wg.Wait()

	total := Result{Exhaustive: true, ViolationCnt: map[string]int64{}, Extra: map[string]int64{}, Notes: map[string]interface{}{}}
	nontriv := map[uint64]struct{}{}
	tooling := []string{}
	for i, r := range results {
		if r.res == nil {
			// abnormal death
			if c.CrashIsViolation && strings.TrimSpace(r.journal) != "" {
				sig, sum := "crash:unclassified", "worker process died"
				if c.CrashSignature != nil {
					sig, sum = c.CrashSignature(r.journal)
				}
				var rp interface{}
				if json.Unmarshal([]byte(r.journal), &rp) != nil {
					rp = r.journal
				}
				tail := r.stderr
				if len(tail) > 600 {
					tail = tail[:600]
				}
				total.Violations = append(total.Violations, Violation{Property: c.ID, Scenario: "worker-crash", Signature: sig,
					Summary: sum + " :: " + firstLine(tail), Replay: rp})
				total.ViolationCnt[sig]++
				total.Exhaustive = false
				total.CapsHit = append(total.CapsHit, fmt.Sprintf("shard %d died; its remaining cases were not explored", i))
			} else {
				tooling = append(tooling, fmt.Sprintf("shard %d: %v\n%s", i, r.err, r.stderr))
			}
			continue
		}
		res := r.res
		total.Evaluations += res.Evaluations
		total.States += res.States
		total.Transitions += res.Transitions
		total.Traces += res.Traces
		if res.MaxDepth > total.MaxDepth {
			total.MaxDepth = res.MaxDepth
		}
		total.Violations = append(total.Violations, res.Violations...)
		for k, v := range res.ViolationCnt {
			total.ViolationCnt[k] += v
		}
		for k, v := range res.Extra {
			total.Extra[k] += v
		}
		for k, v := range res.Notes {
			total.Notes[k] = v
		}
		if len(total.Samples) < 4 {
			total.Samples = append(total.Samples, res.Samples...)
		}
		if !res.Exhaustive {
			total.Exhaustive = false
		}
		for _, ch := range res.CapsHit {
			dup := false
			for _, x := range total.CapsHit {
				if x == ch {
					dup = true
				}
			}
			if !dup {
				total.CapsHit = append(total.CapsHit, ch)
			}
		}
		if res.NontrivFile != "" {
			if b, e := os.ReadFile(res.NontrivFile); e == nil {
				for j := 0; j+8 <= len(b); j += 8 {
					nontriv[binary.LittleEndian.Uint64(b[j:])] = struct{}{}
				}
			}
		}
	}
	if len(tooling) > 0 {
		fmt.Fprintf(os.Stderr, "TOOLING-ERROR check=%s\n%s\n", c.ID, strings.Join(tooling, "\n"))
		os.Exit(3)
	}
	if len(total.Samples) > 4 {
		total.Samples = total.Samples[:4]
	}

	// classify
	known := loadKnown()
	knownSet := map[string]string{}
	for _, f := range known.Findings {
		if f.Property == c.ID {
			knownSet[f.Signature] = f.What
		}
	}
	sigs := []string{}
	for s := range total.ViolationCnt {
		sigs = append(sigs, s)
	}
	sort.Strings(sigs)
	bySig := map[string][]Violation{}
	for _, v := range total.Violations {
		bySig[v.Signature] = append(bySig[v.Signature], v)
	}
	exit := 0
	newViol := 0
	knownHit := map[string]int64{}
	os.MkdirAll(filepath.Join(VerifDir, "replays"), 0o755)
	if old, _ := filepath.Glob(filepath.Join(VerifDir, "replays", c.ID+"-*.json")); len(old) > 0 && os.Getenv("VERIF_APPEND_EVIDENCE") != "1" {
		for _, f := range old {
			os.Remove(f)
		}
	}
	for _, s := range sigs {
		if what, ok := knownSet[s]; ok {
			fmt.Printf("KNOWN-FINDING: property=%s %s [signature=%s, %d cases]\n", c.ID, what, s, total.ViolationCnt[s])
			knownHit[s] = total.ViolationCnt[s]
			continue
		}
		vs := bySig[s]
		if len(vs) == 0 {
			continue
		}
		v := vs[0]
		h := sha256.Sum256([]byte(s))
		path := filepath.Join(VerifDir, "replays", fmt.Sprintf("%s-%x.json", c.ID, h[:4]))
		b, _ := json.MarshalIndent(v, "", " ")
		os.WriteFile(path, b, 0o644)
		fmt.Printf("VIOLATION property=%s replay=%s\n", c.ID, path)
		fmt.Printf("  signature=%s cases=%d\n  %s\n", s, total.ViolationCnt[s], v.Summary)
		exit = 1
		newViol++
	}

	// evidence
	cov := map[string]interface{}{
		"evaluations":                   total.Evaluations,
		"distinct_nontrivial":           len(nontriv),
		"rule":                          c.Rule,
		"samples":                       total.Samples,
		"states":                        total.States,
		"transitions":                   total.Transitions,
		"traces_validated_against_impl": total.Traces,
		"exhaustive":                    total.Exhaustive,
		"caps_hit":                      total.CapsHit,
		"max_depth_completed":           total.MaxDepth,
		"shards":                        n,
		"known_findings_hit":            knownHit,
		"counts":                        total.Extra,
	}
	for k, v := range total.Notes {
		cov[k] = v
	}
	if len(total.Samples) == 0 {
		cov["samples"] = []interface{}{"(no sample recorded)"}
	}
	ev := map[string]interface{}{
		"property_id": c.ID,
		"tier":        tier,
		"seed":        seed,
		"level":       c.Level,
		"coverage":    cov,
		"assumptions": c.Assumptions,
		"wall_s":      time.Since(start).Seconds(),
		"violations":  newViol,
	}
	os.MkdirAll(filepath.Join(VerifDir, "evidence"), 0o755)
	if os.Getenv("VERIF_APPEND_EVIDENCE") == "1" {
		// second engine of the same property (see bin/run.sh): fold the first engine's evidence in
		if pb, err := os.ReadFile(filepath.Join(VerifDir, "evidence", c.ID+".json")); err == nil {
			var prev map[string]interface{}
			if json.Unmarshal(pb, &prev) == nil {
				mergeEvidence(ev, prev)
			}
		}
	}
	eb, _ := json.MarshalIndent(ev, "", " ")
	if strings.HasPrefix(c.ID, "C") {
		os.WriteFile(filepath.Join(VerifDir, "evidence", c.ID+".json"), eb, 0o644)
	}
	fmt.Printf("check %s tier=%s: evaluations=%d states=%d transitions=%d traces=%d nontrivial=%d exhaustive=%v violations(new)=%d known=%d wall=%.1fs\n",
		c.ID, tier, total.Evaluations, total.States, total.Transitions, total.Traces, len(nontriv), total.Exhaustive, newViol, len(knownHit), time.Since(start).Seconds())
	os.Exit(exit)
}

func firstLine(s string) string {
	s = strings.TrimSpace(s)
	if i := strings.IndexByte(s, '\n'); i >= 0 {
		return s[:i]
	}
	return s
}

func evNum(x interface{}) float64 {
	switch v := x.(type) {
	case float64:
		return v
	case int:
		return float64(v)
	case int64:
		return float64(v)
	}
	return 0
}

// mergeEvidence adds the previous engine's evidence (prev) into ev.
func mergeEvidence(ev, prev map[string]interface{}) {
	ev["wall_s"] = evNum(ev["wall_s"]) + evNum(prev["wall_s"])
	ev["violations"] = int64(evNum(ev["violations"]) + evNum(prev["violations"]))
	pc, _ := prev["coverage"].(map[string]interface{})
	cc, _ := ev["coverage"].(map[string]interface{})
	if pc == nil || cc == nil {
		return
	}
	for _, k := range []string{"evaluations", "distinct_nontrivial", "states", "transitions", "traces_validated_against_impl"} {
		cc[k] = int64(evNum(cc[k]) + evNum(pc[k]))
	}
	if b, ok := pc["exhaustive"].(bool); ok && !b {
		cc["exhaustive"] = false
	}
	cc["rule"] = fmt.Sprint(pc["rule"]) + "  ||  " + fmt.Sprint(cc["rule"])
	if ps, ok := pc["samples"].([]interface{}); ok {
		cs, _ := cc["samples"].([]interface{})
		cs = append(ps, cs...)
		if len(cs) > 6 {
			cs = cs[:6]
		}
		cc["samples"] = cs
	}
	if pcaps, ok := pc["caps_hit"].([]interface{}); ok && len(pcaps) > 0 {
		var all []interface{}
		all = append(all, pcaps...)
		if cs, ok := cc["caps_hit"].([]string); ok {
			for _, x := range cs {
				all = append(all, x)
			}
		}
		cc["caps_hit"] = all
	}
	cc["engines"] = []interface{}{map[string]interface{}{"first_engine_counts": pc["counts"], "first_engine_known_findings_hit": pc["known_findings_hit"], "first_engine_max_depth_completed": pc["max_depth_completed"]}}
	if a, ok := prev["assumptions"].([]interface{}); ok {
		var all []interface{}
		all = append(all, a...)
		if cs, ok := ev["assumptions"].([]string); ok {
			for _, x := range cs {
				all = append(all, x)
			}
		}
		ev["assumptions"] = all
	}
}
