#!/usr/bin/env python3
"""save_seed.py <Cxx> <detected_by> <status> <needs...>  — archive a confirmed seeded change under /verif/seeded/<Cxx>/"""
import sys, os, shutil, json, glob, subprocess
pid, detected_by, status = sys.argv[1], sys.argv[2], sys.argv[3]
needs = " ".join(sys.argv[4:])
src = f"/tmp/seed/out/{pid}"
dst = f"/verif/seeded/{pid}"
os.makedirs(dst, exist_ok=True)
for f in glob.glob(src + "/*"):
    b = os.path.basename(f)
    if b == "TASK.md":
        continue
    shutil.copy(f, dst + "/" + b)
head = subprocess.check_output(["git", "-C", "/repo", "log", "--format=%h", "-1"]).decode().strip()
meta = {
    "property": pid,
    "origin": "independent sub-agent given only the property text and a scratch worktree",
    "needs_to_manifest": needs,
    "confirmed": "bin/confirm_seed.sh in a scratch worktree: builds; repository suite passes with the change (only the baseline's TestHTTPRequestBasic / crolt TestCron fail); demo fails with the change and passes without",
    "checked_against_repo_head": head,
    "ran": f"bin/seedtest.sh seeded/{pid}/patch.diff {detected_by.split()[0] if detected_by else pid} quick",
    "detected_by": detected_by,
    "status": status,
}
json.dump(meta, open(dst + "/meta.json", "w"), indent=1)
print("saved", dst)
