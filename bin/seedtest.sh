#!/bin/bash
# bin/seedtest.sh <patch.diff> <ID> [tier]  — apply a seeded change to /repo, run the
# check, undo the change.  Expects exit 1 (violation).  Never commits to /repo.
P=$1; ID=$2; TIER=${3:-quick}
cd /repo || exit 3
if [ -n "$(git status --porcelain)" ]; then echo "/repo not clean" >&2; exit 3; fi
git apply "$P" || { echo "patch does not apply" >&2; exit 3; }
trap 'git -C /repo checkout -- . ; git -C /repo clean -fdq' EXIT
/verif/bin/run.sh $ID $TIER
RC=$?
echo "seedtest: check $ID exit=$RC (1 = detected)"
exit $RC
