#!/bin/bash
# bin/confirm_seed.sh <name> <patch.diff> <demo-file> <dest-rel-path> <go test args...>
# Confirms in a scratch worktree (outside /repo and /verif): the change builds, the
# repository suite still passes with it, the demo FAILS with it and PASSES without.
export GOFLAGS=-mod=mod GOPROXY=off GOSUMDB=off GOTOOLCHAIN=local
NAME=$1; PATCH=$2; DEMO=$3; DEST=$4; shift 4
WT=/tmp/confirm-$NAME
git -C /repo worktree remove --force $WT 2>/dev/null
git -C /repo worktree add -q --detach $WT HEAD || exit 3
trap 'git -C /repo worktree remove --force '$WT' 2>/dev/null; rm -rf '$WT EXIT
cd $WT
IFS=, read -ra DEMOS <<< "$DEMO"; IFS=, read -ra DESTS <<< "$DEST"
for i in "${!DEMOS[@]}"; do cp "${DEMOS[$i]}" "${DESTS[$i]}"; done
go test -vet=off -count=1 "$@" > /tmp/confirm-$NAME.without.log 2>&1; W=$?
git apply "$PATCH" || { echo "APPLY FAILED"; exit 3; }
go build ./... || { echo "BUILD FAILED"; exit 3; }
go test -vet=off -count=1 "$@" > /tmp/confirm-$NAME.with.log 2>&1; X=$?
for d in "${DESTS[@]}"; do rm -f "$d"; done
go test -vet=off -count=1 ./... 2>&1 | grep -E "^(--- FAIL|FAIL|ok)" > /tmp/confirm-$NAME.suite.log
FAILS=$(grep -E "^--- FAIL" /tmp/confirm-$NAME.suite.log | grep -v -E "TestHTTPRequestBasic|TestCron " | wc -l)
echo "confirm $NAME: demo-without-change exit=$W (want 0), demo-with-change exit=$X (want !=0), suite unexpected failures=$FAILS (want 0)"
grep -E "^--- FAIL" /tmp/confirm-$NAME.suite.log
