#!/bin/bash
# Run once after a fresh restore, offline: builds the rewriter and warms the Go
# build cache for both harness binaries against the instrumentation overlays.
set -u
export GOFLAGS=-mod=mod GOPROXY=off GOSUMDB=off GOTOOLCHAIN=local
export GOCACHE=${GOCACHE:-/root/.cache/go-build}
export GODEBUG=goindex=0
cd /verif/instr && go build -o /verif/bin/instr . || exit 1
SCR=$(mktemp -d /dev/shm/verif-setup-XXXXXX)
trap 'rm -rf "$SCR"' EXIT
for spec in "1 seqcheck" "3 schedcheck"; do
  set -- $spec
  [ -d /verif/harness/cmd/$2 ] || continue
  /verif/bin/instr -out "$SCR/ov$1" -level $1 || exit 1
  (cd /verif/harness && go build -overlay "$SCR/ov$1/overlay.json" -o "$SCR/$2" ./cmd/$2) || exit 1
  if [ "$1" = 1 ]; then
    (cd /verif/harness && go build -overlay "$SCR/ov1/overlay.json" -o "$SCR/crolt-driver" github.com/Comcast/rulio/crolt) || exit 1
  fi
done
echo "setup ok"
