#!/usr/bin/env python3
"""Regenerates /verif/MANIFEST.json from the table below (kept next to the code so
the manifest never drifts from what bin/run.sh can actually run)."""
import json, sys

CHECKS = {
 "C01": dict(
  engine="SEQ+GEN",
  technique="explicit-state model checking: exhaustive BFS over bounded rule-lifecycle histories on the real Location with every event dispatched in every state, plus bounded-exhaustive (when,event) pair enumeration, reference-model oracle",
  text="All AddRule/RemRule/AddFact-over-rule-id/EnableRule/Clear/ProcessEvent sequences up to depth 3 (quick) / 4 (thorough) over two rule ids and 16 when-patterns chosen to reach every PatternIndex node kind, on indexed and linear state with and without a parent location; in every reached canonical state all 14 events are dispatched and the dispatched set, bindings, dispositions and SearchRules candidates are compared with a reference model. Additionally every (when, event) pair of a bounded JSON grammar is run on a fresh index and fresh locations. The alphabet also holds a `when` the rule parser accepts and the pattern index refuses: a refused replacement must leave the old rule dispatched.",
  note="Trusts core.Matches as the definition of a match (C05), explicit {when:{pattern}} rule form, the L1 rewriter. Histories behind a state-diverging violation are not expanded.",
  design="2/C01"),
 "C03": dict(
  engine="GEN",
  technique="bounded-exhaustive enumeration of query trees x fact subsets x topologies on the real query evaluator against a reference evaluator (multiset equality)",
  text="Every query tree up to depth 2 over 12 leaves, plus every tree with an operator directly under an operator over a 4-leaf pool (quick; over a 6-leaf pool in thorough), built from 12 leaves (empty, four patterns sharing variables, seven code templates) with and/or/or+shortCircuit of arity 0..2 and not, is evaluated on every subset of a 4-fact universe, with the facts local or split between the location and its parent, by Location.Query and, wrapped as a rule condition, by ProcessEvent; results (or the error) are compared as multisets with a 60-line reference evaluator written from the property statement. A fifth fact ({\"a\":\"1\"}, the JSON-type twin of the first) is added to the fact universe: all 32 subsets for the small trees, two for the rest.",
  note="Trusts core.Matches for fact matching (C05) and the native evaluation of the seven code templates in the reference. Bounded tree depth/arity.",
  design="2/C03"),
 "C06": dict(
  engine="SEQ+FAULT",
  category="model_checking",
  technique="explicit-state model checking with exhaustive crash-point and single-fault enumeration: BFS over operation histories on the real Location over a recording storage wrapper (memory and bolt), differential live-vs-reloaded oracle",
  text="BFS over AddFact (6 expiry/dependency shapes) / AddRule / RemFact / RemRule / EnableRule / SetParents / Clear histories (depth 4 memory, 3 bolt quick; 5/4 thorough) on {indexed, linear} x {memory, bolt}. In every explored transition: a location rebuilt from storage (virtual clock +10 s) must have the same full observation vector as the live one; for EVERY storage call of the operation the history is re-run with the process dying at that call (each stored id must hold its before- or after-value) and with that call failing (the API call must report an error; one further operation must then be durable if acknowledged). Every write history up to length 3/4 is also run against data previously handed out by Storage.Load (bolt mmap aliasing).",
  note="Crash model: a Storage call is atomic and durable once it returns (bolt transaction); torn bolt pages are out of scope. Worker death while reading loaded data is attributed to the journaled case and reported as a violation.",
  design="2/C06"),
 "C07": dict(
  engine="SEQ",
  technique="explicit-state model checking under a harness-owned virtual clock: exhaustive BFS over write / clock-advance / reload / observe sequences, state-hash dedup, reference-model oracle",
  text="For 6 expiry encodings x {fact, rule} x {indexed, linear}: every sequence (depth 5 quick / 7 thorough; the reachable canonical state space is exhausted before the bound) over write, write-already-expired, advancing the virtual clock to 9 instants around the expiry (including E-1ns and E), reload from storage, GetFact/GetRule, SearchFacts, SearchRules and ProcessEvent; the expiry instant is read back, bounded against now+ttl and required never to move; visibility must flip exactly at E; observed-expired items must be gone from storage; already-expired writes must be refused without trace. Four more operations repeat the observations while the storage refuses the next mutating call (the lazy purge): the expired item must stay unobservable.",
  note="Trusts that every clock read goes through the rewritten `time` import (instr reports all swaps). Rules with an RFC3339 string expires are outside AddRule's input domain (Rule.Expires is numeric) and not explored.",
  design="2/C07"),
 "C08": dict(
  engine="GEN+SEQ",
  technique="bounded-exhaustive enumeration of all dependency graphs x deletion sequences x owned map-iteration orders on the real states, reverse-reachability oracle, crash-attributing worker processes",
  text="All 4096 deleteWith graphs over three nodes (targets: the nodes and a dangling id; self-loops, cycles, chains, fans) x 7 variants (plain facts, a rule node, a property fact, an id spelled ?q, an expiring node deleted by a read, an overwritten dependent with stale index entries, an id spelled \"id\") x 9 sequences of one or two deletions x {indexed, linear under every iteration order of its fact map}; after each deletion GetFact, SearchFacts and the storage pairs must show exactly the reverse-reachability survivors. Non-termination (stack overflow) kills a worker and is attributed to its journaled case. For the single deletions of the plain-fact variant additionally: the 1st/2nd/3rd storage call of the deletion fails and the caller retries once; after the acknowledged retry nothing that names the deleted id may survive and nothing else may be gone.",
  note="Deleting an id that is not live is unspecified and skipped. Quick tier subsamples non-default variants (every 4th graph) and linear map orders (2 of 6); thorough is complete.",
  design="2/C08"),
 "C09": dict(
  engine="SEQ",
  technique="explicit-state model checking: exhaustive BFS over multi-location histories (facts, writer rules, every small parent set incl. loops, events) through core.LocationProvider and sys.System, reference-model oracle plus privileged-snapshot non-interference",
  text="BFS to depth 3 (quick) / 4 (thorough), from the empty state and from a populated state, over AddFact / RemFact / AddRule / RemRule / ClearLocation / SetParents(every parent set of size <= 2: self-loops, 2- and 3-cycles, chains, fans, diamonds) / ProcessEvent on three locations, driven through core.SimpleLocationProvider and through sys.System, on both states. The rule has an inherited pattern condition and an action that calls Env.AddFact. After every step each location's inherited and local searches, rule candidates, query and parents are compared with a model (tree-shaped ancestry: own + transitive parents; looping ancestry: an error, and the call returns), and the private state + storage of every location other than the one operated on must be unchanged.",
  note="Diamond ancestry is outside the statement's forests (skipped, counted). Actions run with serialActions (concurrent actions are C04/C12). A worker that dies is attributed to its journaled history.",
  design="2/C09"),
 "C11": dict(
  engine="SCHED",
  technique="stateless model checking of the implementation: controlled scheduler + deviation-bounded DFS over schedules of clients on a fresh sys.System, solo-run differential oracle, vector-clock race detection on maps and on sys/cron struct fields",
  text="Client threads each own one location of a FRESH sys.System (so the very first requests race on start-up state): all ordered pairs of {AddFact, SearchFacts, AddRule, ProcessEvent, GetFact} as first requests, six 2x2-request programs, (thorough) three clients; the storage is created lazily by the System or injected; both states. Every schedule with at most 2 deviations (3 thorough) is executed: each client's results must equal those of running it alone on a fresh System, each location's memory and the pairs stored for it in THE SYSTEM'S storage must equal the solo run's, and there must be no deadlock, escaped panic or happens-before race (map accesses everywhere, pointer-reached struct fields in sys and cron are race-checked and are scheduling points). Method calls on standard-library objects that are not safe for concurrent use (rand.Rand, bytes.Buffer, bufio, list, JSON coders, big numbers) are race-checked accesses to the object.",
  note="The HTTP layer itself is not scheduled (requests enter at the sys.System API; the service mapping is C18). Struct-field instrumentation is limited to packages sys and cron.",
  design="2/C11"),
 "C12": dict(
  engine="SCHED",
  technique="stateless model checking of the implementation: controlled cooperative scheduler + deviation-bounded DFS over thread schedules, brute-force linearizability against sequential runs, vector-clock happens-before race detection on instrumented maps",
  text="Two client threads issue one operation each on shared ids of one location for ALL ordered pairs of 9 operations (AddFact x2 values, RemFact, GetFact, SearchFacts, AddRule, RemRule, EnableRule, ProcessEvent), from an empty and a populated location (a fact and a rule, each with a deleteWith dependent), on both states; every schedule with at most 3 deviations (quick) / 4 (thorough; plus 3 threads and 2+1 operations over a 5-operation alphabet) is executed on the real code under a scheduler that owns every lock, goroutine spawn, channel operation and timer. Per schedule: the call/return history must be explained by a real-time-respecting sequential order (run on a fresh location), final private state and storage must equal that order's, no deadlock (Go's RWMutex writer preference is modelled), no escaped panic, no happens-before race on any instrumented map (thorough: also on the pointer-reached fields of core.IndexedState, core.LinearState and core.Location).",
  note="Sequential consistency is assumed for racy code (races themselves are reported). Visible: rulio's sync, go statements, channels, timers, map accesses; not visible: slice elements, pointer fields, otto internals. 2-3 clients of the property's 2..8. A JavaScript timeout landing early is excluded here (C14).",
  design="2/C12"),
 "C14": dict(
  engine="GEN+SCHED",
  technique="stateless model checking under a controlled scheduler with virtual time as a participant: deviation-bounded DFS over schedules and timer landings of script family x timeout setting x context; native real-time deadline only for busy loops",
  text="9 script families (value, binding, throwing, undefined variable, syntax error, non-terminating with Env.sleep, slow-but-finishing at 4/6/12 ms) x 12 timeout settings (Control.JavascriptTimeout {0,5ms,negative} x DefaultJavascriptTimeout {10ms,negative} x JavascriptTimeouts on/off) x 4 contexts (Location.RunJavascript, rule condition, one disjunct of a rule condition next to one that holds, rule action through ProcessEvent) run under the scheduler with virtual time; every schedule with at most 2 deviations (3 thorough), where the watchdog timer landing early at any scheduling point is a deviation. The caller must return on every schedule; an overrunning script must yield an error / non-complete node within limit + one wait quantum; throwing and invalid scripts yield errors; within-limit scripts return their value. Busy loops without a scheduling point (while(true){}, while(true){x=1}, for(;;){}, for(;;){x=1}, do{}while(true)) run natively in child processes with a 50 ms limit against a 20 s deadline (3 isolated runs each). A fifth context evaluates the script as a code condition for two candidate bindings, of which only one behaves like the template (a failure for one candidate is a failed node).",
  note="Code between scheduling points takes no virtual time; an early timer landing models slow real execution, so a finishing script may then end either way (but never hang, never success with a nil value).",
  design="2/C14"),
 "C13": dict(
  engine="GEN",
  technique="bounded-exhaustive enumeration of the input language (skeleton x value documents in every role, at every layer, on both states) on the real code in journaled child processes, with recover / watchdog / process-death attribution and canary traffic after every input",
  text="Every document (hole at one reserved position, or a hole next to a `when` that the canary event matches - rule, when, pattern, condition, action(s), code, schedule, expires, ttl, deleteWith, id, !props, and/or/not, trigger!, evaluate!, location(s), inherited, uri, variable-looking keys - filled with every value of a pool: 7 leaves, all containers of them to nesting 2 (3 thorough) including empty and heterogeneous ones, variable-looking keys, maps and arrays nested 100 and 3000 deep) is used as fact, rule, pattern, query, event and whole HTTP request body through core.Location, sys.System (with cron hooks) and service.HTTPService.ServeHTTP, on indexed and linear state, each on a fresh pre-populated location and followed by seven canary operations (add, find, get, fire a rule, query, remove, list). Each case is journaled before it runs in a child process: a recovered panic, a call that does not return (re-run alone with a 60 s watchdog), a dead process (re-run alone) and a failing or wrong canary are violations; the supervisor carries on behind a crash. The fact role also runs two multi-stage queries over the stored document (the first stage binds variables to whatever it holds, a later stage mentions them again).",
  note="Quick: about 96,000 cases (600,000 guarded calls). The virtual clock is frozen, so JavaScript watchdogs never fire; scripts in the language do not loop (C14 owns runaway scripts). After three hangs of one skeleton the rest of that skeleton is skipped and the run reported as not exhaustive.",
  design="2/C13"),
 "C15": dict(
  engine="SEQ+SCHED",
  technique="explicit-state model checking: exhaustive BFS over scheduled-rule histories on sys.System with a recording cron service and a which-rule-is-live-where model, plus stateless schedule exploration of the same kinds of history against the real built-in cron under the controlled scheduler with virtual time",
  text="Sequential: BFS (one location to depth 5 / 7 thorough; two locations sharing rule id r to depth 4 / 6) over AddRule(recurring | with condition | deleteWith c | expiring | one-shot | ordinary), AddFact over the rule id, RemRule, AddFact/RemFact(c), ClearLocation, clock += 3s, restart over the same storage, tick(L); cron service shaped like the built-in one (ephemeral, ticks to the captured instance) and like the external crolt one (persistent, resolved by name), both states. In every reached state the registrations held by the cron service must equal the live scheduled rules; every delivered tick must produce exactly the live scheduled rule's action value in its own location, nothing otherwise; a one-shot is gone after it ran. Concurrent: sys.System wired to the real cron.InternalCron/cron.Cron, 8 histories (same id in two locations, replace, overwrite, remove, clear, cascade, one-shot, restart), both states, every schedule with at most 2 (3) deviations: no evaluation after the ending call returned, live rules keep being evaluated in their own location, pending jobs == live scheduled rules. The real-cron part has a ninth history: a rule that reschedules itself under its own id from its own action while its tick runs.",
  note="The recording Cronner is the harness's; the schedule part ties its built-in shape to the real InternalCron. An expired rule's registration may remain (only its ticks are judged). Two engines decide this property; bin/run.sh runs both and folds the evidence.",
  design="2/C15"),
 "C16": dict(
  engine="SCHED+SEQ",
  technique="stateless schedule exploration of the in-memory cron under the controlled scheduler with virtual time, plus explicit-state BFS over operation histories (including reopen points and transaction-granularity interruptions of Add) of the real Bolt-backed crolt service",
  text="In-memory cron.Cron: loop goroutine, firing goroutines and 1-2 client threads issuing Add (one-shot, recurring every second), Rem, replace, Suspend/Resume/Pause, horizon 4 virtual seconds, every schedule with at most 2 deviations (3 thorough; an early timer landing is a deviation): no callback before the due time, one-shot exactly once, recurring at most once per occurrence, at most one pending entry per id at an arbitrary observation point, nothing fires after Rem returned, suspension only delays. crolt: BFS to depth 6 (8 thorough) over {POST add (one-shot 1s/1500ms, recurring), POST rem, DeleteAccount, one work() pass per partition, clock += 500ms/1s/TTL, close-and-reopen the Bolt file, Add interrupted between its existence check and its write by a second client's Add/Delete/DeleteAccount/work} on a real Bolt file with a virtual clock and a recording HTTP RoundTripper; after every operation jobs<p> and time<p> must agree key for key with one time key per job, and no firing may precede the instant in its time key, hit a deleted job, repeat within a pass or repeat for a one-shot. The crolt driver also delivers a second client's Delete / Add while the firing pass's first outbound request is in flight (only when no Bolt write transaction of the pass is open).",
  note="crolt is package main: its explorer is injected into the package through the overlay and run as a subprocess. MaxJitter = 0. A second crolt client interleaves at transaction granularity only (Bolt serialises transactions); crash atomicity inside one Bolt transaction is Bolt's guarantee. Two engines decide this property; bin/run.sh runs both and folds the evidence.",
  design="2/C16"),
 "C17": dict(
  engine="SEQ+SCHED",
  technique="explicit-state differential model checking over cache configurations (BFS over request histories run on seven worlds at once) plus stateless schedule exploration of concurrent requests through sys.System",
  text="Sequential: BFS to depth 4 (6 thorough) over {CreateLocation, AddFact, RemFact, GetFact, SearchFacts, AddRule, ProcessEvent, ClearLocation, AddFact of a non-numeric !cacheTTL property} on two locations and clock += 2ms; every history runs simultaneously on a cache-less core.Location and on six sys.System worlds (LocationTTL never/1ms/forever x CheckExistence off/on, recording storage, virtual clock), both states: all answers must agree, refused requests to uncreated locations must leave no storage pair and no cache entry. Concurrent: under the controlled scheduler, concurrent FIRST requests for one location (TTL forever/1ms) must call Storage.Load exactly once, and 2-3 clients x 1-2 requests on one location (TTL never/1ms) must be linearizable against sequential runs through an identically configured System, stored pairs included (deviation bound 1 quick / 2 thorough). The two locations are named A and a (names that differ only in letter case are two locations).",
  note="Two engines decide this property; bin/run.sh runs both and folds the evidence. Errors are compared by class; removing an id that is not stored is unspecified.",
  design="2/C17"),
 "C18": dict(
  engine="GEN",
  technique="bounded-exhaustive differential enumeration of logical requests x encodings x URI spellings through service.HTTPService.ServeHTTP against the direct call on a twin sys.System (result, status and resulting state compared)",
  text="Every logical request of a bounded language - 19 /api/loc operations (facts add/get/rem/search/query/take/replace, rules add/rem/list/enable/disable/enabled, events/ingest, parents get/set, admin size/clear/create) x ids, locations, facts, patterns, rules, events and queries chosen to need URL, JSON and YAML escaping, on a populated and an empty system - is sent in every encoding that can express it (JSON body, /api/json envelope, query string, form body, YAML body, /api/yaml envelope, batch element, location in the query plus JSON body) and in four URI spellings (/api/loc, /loc, /v1.0/loc, /2/api/loc), each on a fresh service world, and directly to a twin System with the same history: HTTP 200 iff the direct call succeeds (400 otherwise), the body is JSON and the result extracted from it equals the direct result, and the location's memory + storage equal the twin's. Ill-formed variants (each required parameter dropped, each parameter with 2-7 wrong types including malformed JSON text in forms, unknown URIs) must give 400 and leave the state untouched. Both states. One stored rule id contains an ASCII control character (its JSON rendering needs a \\u00XX escape).",
  note="About 22,500 HTTP requests for 1,000 logical requests. Ids are always given (generated ids differ between worlds); take/replace are compared with the documented search-remove-add composition; a refused replace may already have taken.",
  design="2/C18"),
 "C19": dict(
  engine="GEN+SEQ",
  technique="exhaustive enumeration of the product protection state x caller context x operation x set-up history on the real Location (directly and via sys.System), privileged before/after snapshot and unprotected-twin oracle",
  text="The full product of 16 protection states (write key x read key x read-only x disabled), 13 caller contexts (no/wrong/right write and read key, also as SubContexts), 30 operations (whole Location API, two trigger! events, an AddFact with a property-shaped body, Env.* location functions reached from RunJavascript, events whose rule actions mutate), 4 set-up histories, both states and both drivers is executed: a mutating call without write authority must fail and leave private state + storage identical, a revealing call without read authority must fail and return no data, a fully authorised call must equal the same call on an unprotected twin. Inherited path: a parent in each of the 16 protection states is reached through an unprotected child by 7 revealing operations (inherited SearchFacts / ListRules / SearchRules, Query, ProcessEvent, Env.Search, Env.Query) from the 13 caller contexts: without read authority over the parent none of the parent's facts or rules may come back, with it the answer equals the unprotected one.",
  note="The mutating/revealing classification is argued at the top of c19.go (RuleEnabled, GetParents unclassified). ListRules' documented swallowing of the search error (empty list) is accepted as a refusal.",
  design="2/C19"),
 "C20": dict(
  engine="SEQ+SCHED",
  technique="explicit-state model checking (capacity BFS; breaker arrival patterns under a virtual clock with state-hash dedup) plus stateless schedule exploration of concurrent adds, concurrent breaker calls and Throttle submitters",
  text="Sequential: BFS to depth 5 (7 thorough) over AddFact (4 ids + generated) / AddRule / RemFact / EnableRule for MaxFacts in {1,2,3}, both states (a successful add never ends above the maximum, a refused add leaves private state + storage unchanged); every breaker arrival pattern up to length 8 (11 thorough) over {Do, clock advances of 1/4..3/2 ticks, 1/2 and 1 interval, steady polling every 1/2 or 3/2 tick for one interval} for limit 1..3 x interval {20ms, 1s} (+10ns, 30ns, 400ns thorough): at most `limit` admissions per sliding interval, and recovery within two intervals even while polled. Concurrent (controlled scheduler, deviation bound 2 / 3): 2-3 concurrent adds at MaxFacts-1; 2-3 threads calling Do at one instant; 3-4 Throttle submitters with a closed breaker (pendingLimit 0..1) plus an observer reading Pending() at an arbitrary point: no function runs twice, never more than pendingLimit+1 submissions waiting, Pending() in range and 0 when idle.",
  note="Recovery is read generously (two intervals). Two engines decide this property; bin/run.sh runs both and folds the evidence.",
  design="2/C20"),
 "C10": dict(
  engine="SEQ",
  technique="explicit-state model checking: exhaustive BFS over rule-lifecycle histories (add/overwrite/remove/disable/enable/reload/location toggle/expiry) under a virtual clock, lifecycle-automaton oracle",
  text="BFS over AddRule(v1 | v2, which names the event variable differently | expiring) / RemRule / EnableRule / Reload / location disable+enable / clock past the expiry / ProcessEvent / trigger! sequences on {indexed, linear} x {rules local, rules inherited from a parent and toggled in the child}: one rule id to depth 6 (9 thorough), two ids to depth 4 (5). In every reached canonical state the plain event, a trigger! event per id, RuleEnabled and ListRules are compared with the lifecycle automaton (fires with the version last added iff present, unexpired, not disabled here, location enabled); in every disabled state 20 public Location operations must return the disabled error and leave the privileged snapshot (private state dump + storage) unchanged. RemRule is also run while its first / second storage call fails: a rule that is still there afterwards keeps its flag.",
  note="EnableRule only on ids that hold a rule; flag semantics for a parent rule removed while flagged in the child are left unspecified until the next EnableRule; trigger! is only required not to fire suppressed/dead rules when the rule is inherited.",
  design="2/C10"),
 "C04": dict(
  engine="GEN+SCHED",
  technique="bounded-exhaustive enumeration of rule/binding/action shapes, each executed under the controlled scheduler with deviation-bounded DFS over schedules; recording-function oracle + happens-before race detection",
  text="All shapes {1..2 rules} x {1,2 when-bindings via an array pattern} x {no condition, a pattern condition yielding 0/1/2 bindings, a disjunction of two code terms of which one adds a variable} x {1 action, 2 actions, 2 actions with a throwing one} x serialActions {off, on, only on rule 1, only on rule 2} x state: the event is processed under the scheduler (action goroutines, WaitGroup, Values mutex, shared Bindings maps all visible) for every schedule with at most 1 deviation (2 thorough). A Go function installed through App.UpdateJavascriptRuntime records every execution with the variables it can see; the multiset of executions, the work tree nodes, Values and dispositions must equal the expected product, a failing action of a non-serial rule must not stop or alter anything else, and no deadlock, escaped panic or happens-before race may occur. A fourth action shape has a first action whose code does not compile (AddRule accepts it): it fails on its own node and nothing else changes.",
  note="Actions come from one template family reporting candidate variables x,y,e,event,location,ruleId,z. With serialActions a failing action may stop the walk (only 'never twice' is then required).",
  design="2/C04"),
 "C05": dict(
  engine="GEN",
  technique="bounded-exhaustive enumeration of (pattern, datum, bindings) triples x owned map-iteration orders on the real matcher against an independent reference matcher",
  text="Every (pattern, datum, initial bindings) triple of a bounded JSON grammar inside the documented fragment (node budgets 4/4 quick, 5/5 thorough) is run through core.Match under every iteration order of the maps the sheens matcher ranges over (order owned through the build overlay), and the result is compared as a set of binding sets with a brute-force reference matcher written from the manual; inputs are checked for mutation; every core.Map/[]string/[]int decoration of each pair, and the same numbers as Go ints / int64s on one side only, must answer like the plain JSON form; Go-typed initial bindings (int, core.Map, []string) must come back untouched (reflect.DeepEqual); Bindings.Bind is compared with reference substitution.",
  note="Trusts the reference matcher (harness/lib/refmatch.go, ~200 lines, written from the manual's definition). Data strings never look like variables (C13 covers that). Bounded term size: a defect needing a 6-node pattern is missed.",
  design="2/C05"),
 "C02": dict(
  engine="SEQ",
  technique="explicit-state model checking: exhaustive BFS over bounded operation sequences on the real Location, state-hash dedup, reference-model oracle",
  text="Every AddFact/AddRule/RemFact/GetFact/SearchFacts sequence up to the depth bound (3 quick / 5 thorough) over ids {f1,f2,generated}, 13 facts and 19 patterns is executed on the real indexed and linear states and compared step by step, and by a full probe battery in every reached state, with a map-based reference model; states are deduplicated on model + private index dump + storage, so the reachable canonical state space within the bound is covered completely. One fact/pattern pair uses a string the JSON encoder escapes (<, &, quotes, a control character).",
  note="Trusts core.Matches as the definition of a match (decided separately by C05), the Go toolchain, and the rewriter's two L1 transformations (virtual clock, sorted map iteration). Generated ids are compared up to renaming.",
  design="2/C02"),
}

PENDING_REASON = "no check registered yet in this revision (work in progress; see DESIGN.md section 2 for the planned bounded-exhaustive design)"

def main():
    props = [json.loads(l) for l in open('/verif/properties.jsonl')]
    checks = []
    na = []
    for p in props:
        i = p['id']
        c = CHECKS.get(i)
        if not c:
            na.append({"property_id": i, "reason": PENDING_REASON})
            continue
        checks.append({
            "property_id": i,
            "quick_cmd": f"bin/run.sh {i} quick",
            "thorough_cmd": f"bin/run.sh {i} thorough",
            "evidence_file": f"/verif/evidence/{i}.json",
            "replay_cmd_template": f"bin/run.sh {i} --replay {{path}}",
            "engine": c["engine"],
            "level_claimed": {"category": c.get("category", "model_checking"), "text": c["text"], "design_ref": c["design"]},
            "level_note": c["note"],
            "technique": c["technique"],
        })
    m = {
        "version": 1,
        "setup_cmd": "bin/setup.sh",
        "hooks": {
            "guard": "none in /repo: instrumentation is a go build -overlay generated at check time by /verif/instr from /repo's current working tree (virtual packages github.com/Comcast/rulio/verifrt/*, rewritten copies on /dev/shm)",
            "enable": "bin/instr -out $SCR/ov -level {1|2} && (cd harness && go build -overlay $SCR/ov/overlay.json ./cmd/...)",
            "baseline_off_cmd": "cd /repo && GOFLAGS=-mod=mod GOPROXY=off GOSUMDB=off GOTOOLCHAIN=local go test -vet=off -count=1 -timeout 25m ./...",
            "source_commits": [],
            "add_only": True,
        },
        "engines": [
            {"name": "INSTR", "path": "instr/", "serves_properties": sorted(CHECKS), "kind_free_text": "source-to-source rewriter producing a build overlay: virtual clock, owned map-iteration order, (level 2) cooperative scheduler hooks for sync/go/channels"},
            {"name": "GEN", "path": "harness/lib/gen.go", "serves_properties": [k for k, v in sorted(CHECKS.items()) if "GEN" in v["engine"]], "kind_free_text": "bounded-exhaustive term enumeration (all JSON terms up to a node budget over a fixed leaf alphabet, size-ordered)"},
            {"name": "FAULT", "path": "harness/lib/env.go (RecStore)", "serves_properties": [k for k, v in sorted(CHECKS.items()) if "FAULT" in v["engine"]], "kind_free_text": "recording Storage wrapper: exhaustive crash-at-call-k and fail-call-k enumeration over the storage calls of every explored transition"},
            {"name": "SCHED", "path": "rt/sched, rt/vsync, rt/vchan, harness/lib/explore.go", "serves_properties": [k for k, v in sorted(CHECKS.items()) if "SCHED" in v["engine"]], "kind_free_text": "hand-rolled cooperative scheduler (CHESS style) over level-3 instrumented rulio: deviation-bounded DFS over schedules, virtual time as a participant, shared-object reduction, vector-clock race detection, replayable choice lists"},
            {"name": "SEQ", "path": "harness/lib/seq.go", "serves_properties": [k for k, v in sorted(CHECKS.items()) if "SEQ" in v["engine"]], "kind_free_text": "explicit-state BFS over operation sequences of the real code, replay-from-fresh successors, canonical-state dedup including private implementation state, reference-model oracle"},
        ],
        "checks": checks,
        "not_applicable": na,
        "notes": "All checks run the real rulio code built from /repo's current tree; exit 0 = held (KNOWN-FINDING lines list recorded genuine defects from known_findings.json), exit 1 = VIOLATION line(s), exit 3 = tooling error (no verdict).",
    }
    json.dump(m, open('/verif/MANIFEST.json', 'w'), indent=1)
    print("MANIFEST.json: %d checks, %d not_applicable" % (len(checks), len(na)))

main()
