#!/bin/bash
# One entry point for every check:
#   bin/run.sh <ID> quick|thorough
#   bin/run.sh <ID> --replay <path>
# Rebuilds the instrumentation overlay and the harness from /repo's CURRENT
# working tree on every call; scratch lives on /dev/shm and is removed on exit.
set -u
export GOFLAGS=-mod=mod GOPROXY=off GOSUMDB=off GOTOOLCHAIN=local
export GOCACHE=${GOCACHE:-/root/.cache/go-build}
# the module index ignores overlays for module-cache packages (sheens/match gets new imports)
export GODEBUG=goindex=0
VERIF=/verif
ID=${1:?usage: run.sh <ID> quick|thorough|--replay <path>}
shift
SCR=$(mktemp -d /dev/shm/verif-XXXXXX)
trap 'rm -rf "$SCR"' EXIT
case "$ID" in
  C04|C11|C12|C14|C16|TOY) BIN=schedcheck; LEVEL=3 ;;
  *) BIN=seqcheck; LEVEL=1 ;;
esac
if [ -n "${VERIF_BIN:-}" ]; then BIN=$VERIF_BIN; fi
if [ ! -x $VERIF/bin/instr ] || [ $VERIF/instr/main.go -nt $VERIF/bin/instr ] || [ $VERIF/instr/l2.go -nt $VERIF/bin/instr ]; then
  (cd $VERIF/instr && go build -o $VERIF/bin/instr .) || { echo "TOOLING-ERROR: cannot build instr" >&2; exit 3; }
fi
$VERIF/bin/instr -repo /repo -verif $VERIF -out "$SCR/ov" -level $LEVEL || { echo "TOOLING-ERROR: instr failed" >&2; exit 3; }
(cd $VERIF/harness && go build -overlay "$SCR/ov/overlay.json" -o "$SCR/$BIN" ./cmd/$BIN) 2> "$SCR/build.log"
if [ $? -ne 0 ]; then
  echo "TOOLING-ERROR: harness build failed against /repo's working tree (no verdict):" >&2
  head -40 "$SCR/build.log" >&2
  exit 3
fi
VERIF_SCRATCH="$SCR" "$SCR/$BIN" "$ID" "$@"
