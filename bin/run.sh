#!/bin/bash
# One entry point for every check:
#   bin/run.sh <ID> quick|thorough
#   bin/run.sh <ID> --replay <path>
# Rebuilds the instrumentation overlay and the harness from /repo's CURRENT
# working tree on every call; scratch lives on /dev/shm and is removed on exit.
set -u
export GOFLAGS=-mod=mod GOPROXY=off GOSUMDB=off GOTOOLCHAIN=local
export GOCACHE=${GOCACHE:-/root/.cache/go-build}
# the module index ignores overlays for module-cache packages (sheens/match gets new imports)
export GODEBUG=goindex=0
VERIF=/verif
ID=${1:?usage: run.sh <ID> quick|thorough|--replay <path>}
shift
SCR=$(mktemp -d /dev/shm/verif-XXXXXX)
trap 'rm -rf "$SCR"' EXIT
# which engine binaries decide this property (some need both: sequential histories
# by seqcheck, schedules by schedcheck; the second run folds the first one's
# evidence in and the worse exit code wins)
case "$ID" in
  C04|C11|C12|C14|TOY) BINS="schedcheck" ;;
  C15|C16|C17|C20) BINS="seqcheck schedcheck" ;;
  *) BINS="seqcheck" ;;
esac
if [ -n "${VERIF_BIN:-}" ]; then BINS=$VERIF_BIN; fi
if [ "${1:-}" = "--replay" ]; then
  # a replay file names its engine through the scenario it came from
  if grep -q '"choices"' "${2:-/dev/null}" 2>/dev/null; then BINS="schedcheck"; else BINS=$(echo $BINS | cut -d' ' -f1); fi
fi
if [ ! -x $VERIF/bin/instr ] || [ $VERIF/instr/main.go -nt $VERIF/bin/instr ] || [ $VERIF/instr/l2.go -nt $VERIF/bin/instr ]; then
  (cd $VERIF/instr && go build -o $VERIF/bin/instr .) || { echo "TOOLING-ERROR: cannot build instr" >&2; exit 3; }
fi
RC=0
N=0
for BIN in $BINS; do
  N=$((N+1))
  if [ "$BIN" = schedcheck ]; then LEVEL=3; else LEVEL=1; fi
  FT=""
  # thorough tier of the single-location schedule checks: struct fields of the
  # state-bearing core types are scheduling points and race-checked too
  if [ "$BIN" = schedcheck ] && [ "${1:-}" = thorough ] && { [ "$ID" = C12 ] || [ "$ID" = C04 ]; }; then
    FT="-fieldtypes ${VERIF_FIELDTYPES:-core.IndexedState,core.LinearState,core.Location}"
  fi
  $VERIF/bin/instr -repo /repo -verif $VERIF -out "$SCR/ov$LEVEL" -level $LEVEL $FT || { echo "TOOLING-ERROR: instr failed" >&2; exit 3; }
  (cd $VERIF/harness && go build -overlay "$SCR/ov$LEVEL/overlay.json" -o "$SCR/$BIN" ./cmd/$BIN) 2> "$SCR/build.log"
  if [ $? -ne 0 ]; then
    echo "TOOLING-ERROR: harness build failed against /repo's working tree (no verdict):" >&2
    head -40 "$SCR/build.log" >&2
    exit 3
  fi
  if [ "$ID" = C16 ] && [ "$BIN" = seqcheck ]; then
    # crolt is package main: its explorer is injected into the package (inject/crolt)
    # and the instrumented crolt binary is run as a subprocess by seqcheck
    (cd $VERIF/harness && go build -overlay "$SCR/ov$LEVEL/overlay.json" -o "$SCR/crolt-driver" github.com/Comcast/rulio/crolt) 2> "$SCR/build.log"
    if [ $? -ne 0 ]; then
      echo "TOOLING-ERROR: crolt driver build failed against /repo's working tree (no verdict):" >&2
      head -40 "$SCR/build.log" >&2
      exit 3
    fi
    export VERIF_CROLT_BIN="$SCR/crolt-driver"
  fi
  if [ $N -gt 1 ]; then export VERIF_APPEND_EVIDENCE=1; fi
  VERIF_SCRATCH="$SCR" "$SCR/$BIN" "$ID" "$@"
  R=$?
  if [ $R -gt $RC ]; then RC=$R; fi
  if [ $R -eq 3 ]; then break; fi
done
exit $RC
